-- GENERATED from /repo on every check run by `harness gen`; do not edit.
import Biogo.Model.Fastq
namespace Biogo.Generated.Seqio

def fastaIDPrefix : List UInt8 := [62]
def fastaSeqPrefix : List UInt8 := []
def defaultQphred : Nat := 40
def defaultEncoding : Int := 0
def encodingValues : List Int := [-1, 0, 1, 2, 3, 4, 5]
/-- byte(Qphred(i).Qsolexa()) for i = 0..255 -/
def phredSolexa : Array UInt8 := #[0, 250, 254, 0, 2, 3, 5, 6, 7, 8, 10, 11, 12, 13, 14, 15, 16, 17, 18, 19, 20, 21, 22, 23, 24, 25, 26, 27, 28, 29, 30, 31, 32, 33, 34, 35, 36, 37, 38, 39, 40, 41, 42, 43, 44, 45, 46, 47, 48, 49, 50, 51, 52, 53, 54, 55, 56, 57, 58, 59, 60, 61, 62, 63, 64, 65, 66, 67, 68, 69, 70, 71, 72, 73, 74, 75, 76, 77, 78, 79, 80, 81, 82, 83, 84, 85, 86, 87, 88, 89, 90, 91, 92, 93, 94, 95, 96, 97, 98, 99, 100, 101, 102, 103, 104, 105, 106, 107, 108, 109, 110, 111, 112, 113, 114, 115, 116, 117, 118, 119, 120, 121, 122, 123, 124, 125, 126, 127, 127, 127, 127, 127, 127, 127, 127, 127, 127, 127, 127, 127, 127, 127, 127, 127, 127, 127, 127, 127, 127, 127, 127, 127, 127, 127, 127, 127, 127, 127, 127, 127, 127, 127, 127, 127, 127, 127, 127, 127, 127, 127, 127, 127, 127, 127, 127, 127, 127, 127, 127, 127, 127, 127, 127, 127, 127, 127, 127, 127, 127, 127, 127, 127, 127, 127, 127, 127, 127, 127, 127, 127, 127, 127, 127, 127, 127, 127, 127, 127, 127, 127, 127, 127, 127, 127, 127, 127, 127, 127, 127, 127, 127, 127, 127, 127, 127, 127, 127, 127, 127, 127, 127, 127, 127, 127, 127, 127, 127, 127, 127, 127, 127, 127, 127, 127, 127, 127, 127, 127, 127, 127, 127, 127, 127, 127, 127, 128]
/-- Qsolexa(i-128).Qphred() for i = 0..255 -/
def solexaPhred : Array UInt8 := #[255, 0, 0, 0, 0, 0, 0, 0, 0, 0, 0, 0, 0, 0, 0, 0, 0, 0, 0, 0, 0, 0, 0, 0, 0, 0, 0, 0, 0, 0, 0, 0, 0, 0, 0, 0, 0, 0, 0, 0, 0, 0, 0, 0, 0, 0, 0, 0, 0, 0, 0, 0, 0, 0, 0, 0, 0, 0, 0, 0, 0, 0, 0, 0, 0, 0, 0, 0, 0, 0, 0, 0, 0, 0, 0, 0, 0, 0, 0, 0, 0, 0, 0, 0, 0, 0, 0, 0, 0, 0, 0, 0, 0, 0, 0, 0, 0, 0, 0, 0, 0, 0, 0, 0, 0, 0, 0, 0, 0, 0, 0, 0, 0, 0, 0, 0, 0, 0, 0, 1, 1, 1, 1, 1, 1, 2, 2, 3, 3, 4, 4, 5, 5, 6, 7, 8, 9, 10, 10, 11, 12, 13, 14, 15, 16, 17, 18, 19, 20, 21, 22, 23, 24, 25, 26, 27, 28, 29, 30, 31, 32, 33, 34, 35, 36, 37, 38, 39, 40, 41, 42, 43, 44, 45, 46, 47, 48, 49, 50, 51, 52, 53, 54, 55, 56, 57, 58, 59, 60, 61, 62, 63, 64, 65, 66, 67, 68, 69, 70, 71, 72, 73, 74, 75, 76, 77, 78, 79, 80, 81, 82, 83, 84, 85, 86, 87, 88, 89, 90, 91, 92, 93, 94, 95, 96, 97, 98, 99, 100, 101, 102, 103, 104, 105, 106, 107, 108, 109, 110, 111, 112, 113, 114, 115, 116, 117, 118, 119, 120, 121, 122, 123, 124, 125, 126, 0]
def qtables : Biogo.Fastq.QTables :=
  { phredSolexa := fun q => phredSolexa.getD q.toNat 0, solexaPhred := fun i => solexaPhred.getD i.toNat 0 }

/-- FNV-1a fingerprints of the printed source of the modelled functions (informational) -/
def fingerprints : List (String × String) := [
  ("fasta.Reader.Read", "656f63847fa0d6c9"),
  ("fasta.Reader.header", "6f7d4732f88d4c39"),
  ("fasta.Writer.Write", "c51a40113ba068d2"),
  ("fastq.Reader.Read", "2a396da093ecc0e6"),
  ("fastq.Reader.readHeader", "06b412e417b89a16"),
  ("fastq.Writer.Write", "24392448a3fb229d"),
  ("fastq.Writer.writeHeader", "accef125a5663ab7"),
  ("fastq.maybeID1", "0780ef05a93ac37d"),
  ("fastq.maybeID2", "f44a89e96fd08c87"),
  ("fastq.isSpace", "1ce8a51ff8096dad")]

/-- per modelled function, in source order: the index, slice, division/remainder and
    single-valued type-assertion expressions (everything in it that can panic at run time) -/
def panicSites : List (String × List String) := [
  ("fasta.Reader.Read", ["line[len(r.SeqPrefix):]"]),
  ("fasta.Reader.header", ["r.t.Clone().(seqio.SequenceAppender)", "line[len(r.IDPrefix):]", "line[:fieldMark]", "line[fieldMark+1:]"]),
  ("fasta.Writer.Write", ["i % w.Width"]),
  ("fastq.Reader.Read", ["label[1:]", "line[1:]", "label[1:]", "line[1:]", "seqBuff[i]", "seqBuff[:i]", "line[:0]", "seqBuff[i]", "line[i]"]),
  ("fastq.Reader.readHeader", ["r.t.Clone().(seqio.SequenceAppender)", "line[1:]", "line[1:fieldMark]", "line[fieldMark+1:]"]),
  ("fastq.Writer.Write", []),
  ("fastq.Writer.writeHeader", []),
  ("fastq.maybeID1", ["l[0]"]),
  ("fastq.maybeID2", ["l[0]"])]

end Biogo.Generated.Seqio
