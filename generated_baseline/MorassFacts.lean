-- GENERATED from /repo on every check run by `harness gen`; do not edit.
namespace Biogo.Generated.MorassFacts

/-- `m.writable <- m.chunk; m.writers.Add(1); go m.write()` consecutive (in Push or a helper), the only `go` of the file -/
def pushAddsBeforeSpawn : Bool := true
/-- `m.writers.Add(1); m.write(); m.writers.Wait()` consecutive (in Finalise or a helper) -/
def finaliseAddsWritesThenWaits : Bool := true
/-- the spawned writer method: first statement is `defer m.writers.Done()`, the only Done -/
def writeDefersDoneFirst : Bool := true
/-- every `m.files = append(m.files, f)` directly between filesLock.Lock and Unlock -/
def filesAppendUnderLock : Bool := true
/-- setErr takes the error lock -/
def setErrLocks : Bool := true
/-- Push: first statement is `if typ := reflect.TypeOf(e); typ != m.typ { return ... }` -/
def pushChecksTypeFirst : Bool := true

end Biogo.Generated.MorassFacts
