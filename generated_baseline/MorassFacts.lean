-- GENERATED from /repo on every check run by `harness gen`; do not edit.
namespace Biogo.Generated.MorassFacts

/-- Push: `m.writable <- m.chunk; m.writers.Add(1); go m.write()` consecutive, the only `go` -/
def pushAddsBeforeSpawn : Bool := true
/-- Finalise: `m.writers.Add(1); m.write(); m.writers.Wait()` consecutive -/
def finaliseAddsWritesThenWaits : Bool := true
/-- write: first statement is `defer m.writers.Done()` -/
def writeDefersDoneFirst : Bool := true
/-- write: `m.files = append(m.files, f)` between filesLock.Lock and Unlock -/
def filesAppendUnderLock : Bool := true
/-- setErr takes the error lock -/
def setErrLocks : Bool := true
/-- Push: first statement is `if typ := reflect.TypeOf(e); typ != m.typ { return ... }` -/
def pushChecksTypeFirst : Bool := true

end Biogo.Generated.MorassFacts
