-- GENERATED from /repo on every check run by `harness gen`; do not edit.
namespace Biogo.Generated

/-- bounds of the depth loops of feat/feature.go, in source order -/
def featLoopBounds : List (String × Nat) := [("BasePositionOf", 1000), ("PositionWithin", 1000), ("BaseOrientationOf", 1000), ("BaseOrientationOf", 1000), ("OrientationWithin", 1000)]

/-- the calls Exons.Add makes before its checking loop, in source order -/
def addPrologue : List String := ["make", "copy", "append", "sort.Sort"]

end Biogo.Generated
