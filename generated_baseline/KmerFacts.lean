-- GENERATED from /repo on every check run by `harness gen`; do not edit.
namespace Biogo.Generated.KmerFacts

/-- `8 * unsafe.Sizeof(kmerindex.Kmer(0))` -/
def kmerBits : Nat := 32
/-- `kmerindex.MinKmerLen` -/
def minKmerLen : Nat := 4
/-- `kmerindex.MaxKmerLen` -/
def maxKmerLen : Nat := 16
/-- `8 * unsafe.Sizeof(int(0))` -/
def intBits : Nat := 64

end Biogo.Generated.KmerFacts
