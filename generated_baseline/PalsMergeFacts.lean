-- GENERATED from /repo on every check run by `harness gen`; do not edit.
namespace Biogo.Generated.PalsMerge

def diagonalPadding : Int := 2
def fpNewMerger : String := "392443e40c06fbbe"
def fpMergeFilterHit : String := "f9561280355fe664"
def fpClipVertical : String := "5861ce210623e268"
def fpClipTrapezoids : String := "47091a1af8bc4977"
def fpFinaliseMerge : String := "bba445c04632a297"
def fpPrependFrontTo : String := "73d0994c671efa3a"
def fpJoin : String := "9849eba41fd84ef7"
def fpDecapitate : String := "5eb00fe0a5bab0ec"
def fpClip : String := "e36f3e570daea767"
def fpTrapLess : String := "1a7ae4edcf19e1d1"

end Biogo.Generated.PalsMerge
