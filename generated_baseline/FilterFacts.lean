-- GENERATED from /repo on every check run by `harness gen`; do not edit.
import Biogo.Model.Filter
namespace Biogo.Generated.FilterFacts

/-- the retirement rule of align/pals/filter/filter.go as parsed from the source -/
def rule : Biogo.Filter.Rule := { retireSubMaxError := true, flushFromLastTick := true, tickByPosition := true }

end Biogo.Generated.FilterFacts
