-- GENERATED from /repo on every check run by `harness gen`; do not edit.
import Biogo.Model.Filter
namespace Biogo.Generated.FilterFacts

/-- the retirement rule of align/pals/filter/filter.go as parsed from the source -/
def rule : Biogo.Filter.Rule := { retireSubMaxError := true, flushFromLastTick := true, tickByPosition := true, remakeTubes := true }

/-- the fields of a Filter assigned at the head of (*Filter).Filter, in order -/
def perCallFields : List String := ["selfAlign", "complement", "morass", "k", "minKmersPerHit", "maxKmerDist"]

/-- every other assignment to a field of a Filter in filter.go (New builds it by a composite literal), in source order -/
def otherFieldWrites : List String := ["tubes", "tubes"]

end Biogo.Generated.FilterFacts
