-- GENERATED from /repo on every check run by `harness gen`; do not edit.
namespace Biogo.Generated.Concurrent

def hookPoints : List (String × String) := [("NewProcessor", "worker.start"), ("NewProcessor", "worker.token_returned"), ("NewProcessor", "worker.result"), ("Wait", "promise.wait.borrowed")]

def closeRule : String := "exit-counter"
def closeCond : String := "atomic.AddInt32(&p.exited, 1) == int32(p.threads)"
def tokenReturnedBeforeHook : Bool := true
def wgDoneAfterClose : Bool := true

def settersLocked : List (String × Bool) := [("Fulfill", true), ("Fail", true), ("Recover", true), ("Break", true)]
def waitTakesUnderMutex : Bool := true
def waitSleepsOnCond : Bool := true
def failCond : String := "!set"
def recoverTakesMessage : String := "when-recoverable"
def putsThenBroadcast : List (String × Nat × Nat) := [("fulfill", 1, 1), ("fail", 1, 1)]

end Biogo.Generated.Concurrent
