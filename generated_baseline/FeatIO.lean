-- GENERATED from /repo on every check run by `harness gen`; do not edit.
namespace Biogo.Generated.FeatIO

/-- the iota block of gff.go, in order (value = position) -/
def gffFields : List String := ["nameField",
   "sourceField",
   "featureField",
   "startField",
   "endField",
   "scoreField",
   "strandField",
   "frameField",
   "attributeField",
   "commentField",
   "lastField"]

/-- the iota block of bed.go, in order (value = position) -/
def bedFields : List String := ["chromField",
   "startField",
   "endField",
   "nameField",
   "scoreField",
   "strandField",
   "thickStartField",
   "thickEndField",
   "rgbField",
   "blockCountField",
   "blockSizesField",
   "blockStartsField"]

def gffVersion : String := "2"

/-- length guards and constant indexings of gff.Read, in source order -/
def gff_Read : List String :=
  ["guard len(line) == 0",
   "guard len(line) == 0",
   "index line[0]",
   "guard len(fields) <= frameField",
   "index fields[nameField]",
   "index fields[sourceField]",
   "index fields[featureField]",
   "index fields[startField] via mustAtoPos",
   "index fields[endField] via mustAtoi",
   "index fields[scoreField] via mustAtofPtr",
   "index fields[strandField] via mustAtos",
   "index fields[frameField] via mustAtoFr",
   "guard len(fields) <= attributeField",
   "index fields[attributeField] via mustAtoa",
   "guard len(fields) <= commentField",
   "index fields[commentField]"]

/-- length guards and constant indexings of gff.commentMetaline, in source order -/
def gff_commentMetaline : List String :=
  ["guard len(fields) < 1",
   "index fields[0]",
   "guard len(fields) <= 1",
   "index fields[1] via mustAtoi",
   "guard len(fields) <= 1",
   "guard len(fields) <= 1",
   "guard len(r.TimeFormat) > 0",
   "guard len(fields) <= 1",
   "index fields[1]",
   "guard len(fields) > 2",
   "index fields[2]",
   "guard len(fields) <= 3",
   "index fields[1]",
   "index fields[2] via mustAtoPos",
   "index fields[3] via mustAtoi",
   "guard len(fields) <= 1",
   "index fields[0]",
   "index fields[1]"]

/-- length guards and constant indexings of gff.metaSeq, in source order -/
def gff_metaSeq : List String :=
  ["guard len(line) == 0",
   "guard len(line) == 0",
   "guard len(line) < 2"]

/-- length guards and constant indexings of gff.mustAtoa, in source order -/
def gff_mustAtoa : List String :=
  ["guard len(f) == 0",
   "guard len(tag) == 0"]

/-- length guards and constant indexings of gff.mustAtos, in source order -/
def gff_mustAtos : List String :=
  ["guard len(f[index]) != 1",
   "index f[index][0]"]

/-- length guards and constant indexings of gff.mustAtofPtr, in source order -/
def gff_mustAtofPtr : List String :=
  ["guard len(f[index]) == 1",
   "index f[index][0]"]

/-- length guards and constant indexings of gff.mustAtoFr, in source order -/
def gff_mustAtoFr : List String :=
  ["guard len(f[index]) == 1",
   "index f[index][0]"]

/-- length guards and constant indexings of bed.parseBed3, in source order -/
def bed_parseBed3 : List String :=
  ["guard len(f) < n",
   "index f[chromField]",
   "index f[startField]",
   "index f[endField]"]

/-- length guards and constant indexings of bed.parseBed4, in source order -/
def bed_parseBed4 : List String :=
  ["guard len(f) < n",
   "index f[chromField]",
   "index f[startField]",
   "index f[endField]",
   "index f[nameField]"]

/-- length guards and constant indexings of bed.parseBed5, in source order -/
def bed_parseBed5 : List String :=
  ["guard len(f) < n",
   "index f[chromField]",
   "index f[startField]",
   "index f[endField]",
   "index f[nameField]",
   "index f[scoreField]"]

/-- length guards and constant indexings of bed.parseBed6, in source order -/
def bed_parseBed6 : List String :=
  ["guard len(f) < n",
   "index f[chromField]",
   "index f[startField]",
   "index f[endField]",
   "index f[nameField]",
   "index f[scoreField]",
   "index f[strandField]"]

/-- length guards and constant indexings of bed.parseBed12, in source order -/
def bed_parseBed12 : List String :=
  ["guard len(f) < n",
   "index f[chromField]",
   "index f[startField]",
   "index f[endField]",
   "index f[nameField]",
   "index f[scoreField]",
   "index f[strandField]",
   "index f[thickStartField]",
   "index f[thickEndField]",
   "index f[rgbField]",
   "index f[blockCountField]",
   "index f[blockSizesField]",
   "index f[blockStartsField]"]

/-- length guards and constant indexings of bed.mustAtoRgb, in source order -/
def bed_mustAtoRgb : List String :=
  ["guard l == 0",
   "guard l == 1",
   "index c[0]",
   "guard l < 3",
   "index c[0]",
   "index c[1]",
   "index c[2]"]

/-- length guards and constant indexings of bed.mustAtos, in source order -/
def bed_mustAtos : List String :=
  ["guard len(f) != 1",
   "index f[0]"]

/-- length guards and constant indexings of bed.mustAtoa, in source order -/
def bed_mustAtoa : List String :=
  ["guard len(f) == 0"]

/-- length guards and constant indexings of bed.Read, in source order -/
def bed_Read : List String :=
  ["guard len(line) == 0"]

end Biogo.Generated.FeatIO
