#!/usr/bin/env python3
"""Confirm a behaviour-preserving rewrite delivered by an independent sub-agent and keep it.

  python3 tools_confirm_benign.py <Cxx> <b1|b2|...> [outdir]   (reads /tmp/seed/<Cxx>/benign/<bk>/, uses worktree /tmp/seed/<Cxx>/repo)

Confirms, in the scratch worktree: the patch applies to the current /repo HEAD, the code builds
(also with the `verif` tag), the whole existing test suite passes with it, and the agent's
equivalence test passes with and without it.  On success copies the files to
/verif/benign/<Cxx>-<bk>/ and records in meta.json `checks`: every property that anchors a changed
file (all of those checks must stay quiet on the rewrite)."""
import json, os, subprocess, sys, shutil

ENV = dict(os.environ, GOFLAGS="-mod=mod", GOPROXY="off", GOSUMDB="off", GOTOOLCHAIN="local")


def sh(cmd, cwd=None, timeout=1800):
    p = subprocess.run(cmd, cwd=cwd, env=ENV, shell=isinstance(cmd, str), stdout=subprocess.PIPE,
                       stderr=subprocess.STDOUT, text=True, timeout=timeout)
    return p.returncode, p.stdout


def props_anchoring(files):
    out = []
    for l in open("/verif/properties.jsonl"):
        if l.strip():
            p = json.loads(l)
            if set(p["anchors"]["files"]) & set(files):
                out.append(p["id"])
    return out


def main():
    pid, bk = sys.argv[1], sys.argv[2]
    outdir = sys.argv[3] if len(sys.argv) > 3 else "benign"
    src = "/tmp/seed/%s/%s/%s" % (pid, outdir, bk)
    wt = "/tmp/seed/%s/repo" % pid
    meta = json.load(open(os.path.join(src, "meta.json")))
    head = sh(["git", "-C", "/repo", "rev-parse", "HEAD"])[1].strip()
    sh(["git", "-C", wt, "checkout", "-q", "--detach", head])
    sh(["git", "-C", wt, "checkout", "--", "."])
    sh(["git", "-C", wt, "clean", "-fdq"])
    rc, out = sh(["git", "-C", wt, "apply", "--check", os.path.join(src, "patch.diff")])
    if rc != 0:
        print("patch does not apply to HEAD %s: %s" % (head[:8], out))
        return 1
    et = meta.get("equiv_test", {})
    import re
    place = (et.get("place_in", "").replace(wt, "").split() or [""])[0].strip("/")
    run = et.get("run", "").replace("/tmp/seed/%s/repo" % pid, wt)
    run = re.sub(r"cp \S+ \S+ && ", "", run)      # the tool places the test file itself
    tests = [f for f in os.listdir(src) if f.endswith("_test.go")]
    def place_t():
        for f in tests:
            shutil.copy(os.path.join(src, f), os.path.join(wt, place, f))
    def remove_t():
        sh(["git", "-C", wt, "clean", "-fdq"])
    ran = []
    place_t(); rc0, out0 = sh(run, cwd=wt) if run else (0, ""); remove_t()
    ran.append({"cmd": run, "tree": "unchanged", "exit": rc0})
    sh(["git", "-C", wt, "apply", os.path.join(src, "patch.diff")])
    files = sh(["git", "-C", wt, "diff", "--name-only"])[1].split()
    rcb, outb = sh("go build ./... && go build -tags verif ./...", cwd=wt)
    rct, outt = sh("go test -vet=off -count=1 ./...", cwd=wt)
    ran.append({"cmd": "go test -vet=off -count=1 ./...", "tree": "rewritten", "exit": rct})
    place_t(); rc1, out1 = sh(run, cwd=wt) if run else (0, ""); remove_t()
    ran.append({"cmd": run, "tree": "rewritten", "exit": rc1})
    sh(["git", "-C", wt, "checkout", "--", "."])
    ok = rc0 == 0 and rcb == 0 and rct == 0 and rc1 == 0
    print("%s %s: equiv unchanged=%d build=%d suite=%d equiv rewritten=%d files=%s -> %s" % (
        pid, bk, rc0, rcb, rct, rc1, files, "CONFIRMED" if ok else "REJECTED"))
    if not ok:
        print((out0[-500:] if rc0 else "") + (outb[-500:] if rcb else "") + (outt[-500:] if rct else "") + (out1[-500:] if rc1 else ""))
        return 1
    dst = "/verif/benign/%s-%s" % (pid, bk)
    shutil.rmtree(dst, ignore_errors=True)
    os.makedirs(dst)
    for f in os.listdir(src):
        s = os.path.join(src, f)
        if os.path.isfile(s):
            shutil.copy(s, dst)
    meta["property"] = pid
    meta["files_changed"] = files
    checks = props_anchoring(files)
    if pid not in checks:
        checks.insert(0, pid)
    meta["checks"] = checks
    meta["confirmed_by_me"] = {"repo_head": head, "ran": ran}
    meta["produced_by"] = "independent sub-agent given only the property text and a scratch worktree"
    json.dump(meta, open(os.path.join(dst, "meta.json"), "w"), indent=1)
    return 0


if __name__ == "__main__":
    sys.exit(main())
