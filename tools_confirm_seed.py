#!/usr/bin/env python3
"""Confirm a seeded change delivered by an independent sub-agent and keep it.

  python3 tools_confirm_seed.py <Cxx> <m1|m2|...>      (reads /tmp/seed/<Cxx>/out/<mk>/, uses worktree /tmp/seed/<Cxx>/repo)

Confirms, in the scratch worktree: the patch applies to the current /repo HEAD, the code builds,
the whole existing test suite passes with it, the demonstration FAILS with it and PASSES without
it.  On success copies patch.diff, the demonstration and meta.json (+ what was run) to
/verif/seeded/<Cxx>-<mk>/."""
import json, os, subprocess, sys, shutil, glob

ENV = dict(os.environ, GOFLAGS="-mod=mod", GOPROXY="off", GOSUMDB="off", GOTOOLCHAIN="local")


def sh(cmd, cwd=None, timeout=1800):
    p = subprocess.run(cmd, cwd=cwd, env=ENV, shell=isinstance(cmd, str), stdout=subprocess.PIPE,
                       stderr=subprocess.STDOUT, text=True, timeout=timeout)
    return p.returncode, p.stdout


def main():
    pid, mk = sys.argv[1], sys.argv[2]
    outdir = sys.argv[3] if len(sys.argv) > 3 else "out"
    src = "/tmp/seed/%s/%s/%s" % (pid, outdir, mk)
    wt = "/tmp/seed/%s/repo" % pid
    meta = json.load(open(os.path.join(src, "meta.json")))
    ran = []
    # bring the scratch worktree to /repo's current HEAD, clean
    head = sh(["git", "-C", "/repo", "rev-parse", "HEAD"])[1].strip()
    sh(["git", "-C", wt, "checkout", "-q", "--detach", head])
    sh(["git", "-C", wt, "checkout", "--", "."])
    sh(["git", "-C", wt, "clean", "-fdq"])
    rc, out = sh(["git", "-C", wt, "apply", "--check", os.path.join(src, "patch.diff")])
    if rc != 0:
        print("patch does not apply to HEAD %s: %s" % (head[:8], out))
        return 1
    demo = meta["demo"]
    place = demo.get("place_in", "").strip("/")
    demo_files = [f for f in os.listdir(src) if f not in ("patch.diff", "meta.json")]
    def place_demo():
        for f in demo_files:
            s = os.path.join(src, f)
            d = os.path.join(wt, place, f)
            if os.path.isdir(s):
                shutil.copytree(s, d)
            else:
                os.makedirs(os.path.dirname(d), exist_ok=True)
                shutil.copy(s, d)
    def remove_demo():
        sh(["git", "-C", wt, "clean", "-fdq"])
    run = demo["run"]
    run = run.replace("/tmp/seed/%s/repo" % pid, wt)
    # 1. without the change the demo passes
    place_demo()
    rc0, out0 = sh(run, cwd=wt)
    ran.append({"cmd": run, "tree": "unchanged", "exit": rc0})
    remove_demo()
    # 2. with the change: builds, suite passes, demo fails
    sh(["git", "-C", wt, "apply", os.path.join(src, "patch.diff")])
    rcb, outb = sh("go build ./... && go vet ./... >/dev/null 2>&1; go build ./...", cwd=wt)
    rct, outt = sh("go test -vet=off -count=1 ./...", cwd=wt)
    ran.append({"cmd": "go test -vet=off -count=1 ./...", "tree": "changed", "exit": rct})
    place_demo()
    rc1, out1 = sh(run, cwd=wt)
    ran.append({"cmd": run, "tree": "changed", "exit": rc1, "tail": out1[-600:]})
    remove_demo()
    sh(["git", "-C", wt, "checkout", "--", "."])
    ok = rc0 == 0 and rcb == 0 and rct == 0 and rc1 != 0
    print("%s %s: demo unchanged exit=%d, build=%d, suite with change exit=%d, demo with change exit=%d -> %s" % (
        pid, mk, rc0, rcb, rct, rc1, "CONFIRMED" if ok else "REJECTED"))
    if not ok:
        print(out0[-800:] if rc0 else "", outt[-800:] if rct else "")
        return 1
    dst = "/verif/seeded/%s-%s" % (pid, mk)
    shutil.rmtree(dst, ignore_errors=True)
    os.makedirs(dst)
    shutil.copy(os.path.join(src, "patch.diff"), dst)
    for f in demo_files:
        s = os.path.join(src, f)
        shutil.copytree(s, os.path.join(dst, f)) if os.path.isdir(s) else shutil.copy(s, dst)
    meta["property"] = pid
    meta["confirmed_by_me"] = {"repo_head": head, "ran": ran}
    meta["produced_by"] = "independent sub-agent given only the property text and a scratch worktree"
    json.dump(meta, open(os.path.join(dst, "meta.json"), "w"), indent=1)
    return 0


if __name__ == "__main__":
    sys.exit(main())
