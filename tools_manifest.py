#!/usr/bin/env python3
"""Regenerate MANIFEST.json from propcfg/*.json (claimed) and properties.jsonl (the rest → not_applicable).
Per-property manifest text lives in propcfg/Cxx.json under "manifest": {level_text, level_note, technique, design_ref}."""
import json, glob, os, subprocess, importlib.machinery, importlib.util
ROOT = os.path.dirname(os.path.abspath(__file__))
_l = importlib.machinery.SourceFileLoader("verif_check", os.path.join(ROOT, "check"))
_spec = importlib.util.spec_from_loader("verif_check", _l)
chk = importlib.util.module_from_spec(_spec)
_l.exec_module(chk)
props = [json.loads(l)["id"] for l in open(os.path.join(ROOT, "properties.jsonl")) if l.strip()]
checks, na = [], []
for pid in props:
    if glob.glob(os.path.join(ROOT, "propcfg", pid + ".json")) + glob.glob(os.path.join(ROOT, "propcfg", pid + ".*.json")):
        cfg = chk.load_cfg(pid)
        if cfg.get("claimed", True):
            m = cfg.get("manifest", {})
            checks.append({
                "property_id": pid,
                "quick_cmd": "./check %s --tier quick" % pid,
                "thorough_cmd": "./check %s --tier thorough" % pid,
                "evidence_file": "/verif/evidence/%s.json" % pid,
                "replay_cmd_template": "./check %s --replay {path}" % pid,
                "engine": "lean4-proof+correspondence",
                "level_claimed": {"category": cfg.get("level", "proof"),
                                  "text": m.get("level_text", ""), "design_ref": m.get("design_ref", "DESIGN.md §4 " + pid)},
                "level_note": m.get("level_note", "; ".join(cfg.get("trusted_base", []))),
                "technique": m.get("technique", "Lean 4 theorems about an executable model + differential correspondence with the Go code"),
            })
            continue
        na.append({"property_id": pid, "reason": cfg.get("not_applicable_reason", "check withdrawn")})
    else:
        na.append({"property_id": pid, "reason": "no check is registered for this property yet (the Lean model and its tie to the code are not built); nothing is claimed"})
hooks_commits = []
hp = os.path.join(ROOT, "HOOK_COMMITS.txt")
if os.path.exists(hp):
    hooks_commits = [l.split()[0] for l in open(hp) if l.strip() and not l.startswith("#")]
man = {
    "version": 1,
    "setup_cmd": "cd /verif && ./check --setup",
    "hooks": {
        "guard": "verif",
        "enable": "go build -tags verif (the harness module replaces github.com/biogo/biogo with /repo and is rebuilt from the working tree by every check)",
        "baseline_off_cmd": "cd /repo && GOFLAGS=-mod=mod GOPROXY=off GOSUMDB=off GOTOOLCHAIN=local go test -vet=off -count=1 ./...",
        "source_commits": hooks_commits,
        "add_only": True,
    },
    "engines": [{"name": "lean4-proof+correspondence", "path": "/verif/check",
                 "serves_properties": [c["property_id"] for c in checks],
                 "kind_free_text": "Lean 4 models and kernel-checked theorems (lean/Biogo), facts regenerated from /repo's source, and a Go harness that runs the real code and the compiled Lean model on the same generated inputs and diffs observations"}],
    "checks": checks,
    "not_applicable": na,
    "notes": "See DESIGN.md. KNOWN_FINDINGS.txt lists recorded findings and fixes. Every check rebuilds the harness from /repo's working tree, regenerates lean/Biogo/Generated, rebuilds the Lean targets and rewrites its evidence file.",
}
json.dump(man, open(os.path.join(ROOT, "MANIFEST.json"), "w"), indent=1)
print("claimed:", [c["property_id"] for c in checks])
