#!/usr/bin/env python3
"""Run the registered checks against every kept seeded change (seeded/<id>/patch.diff).

  python3 tools_seeded.py [<seed id> ...] [--tier quick|thorough]

For each: /repo must be clean; apply the patch; run ./check <property>; undo the patch;
record exit status and the VIOLATION line in seeded/RESULTS.json / RESULTS.md.
Evidence files are saved before and restored after, because evidence must describe the
unchanged tree."""
import json, os, subprocess, sys, shutil, time, glob

ROOT = os.path.dirname(os.path.abspath(__file__))
REPO = "/repo"


def sh(cmd, **kw):
    p = subprocess.run(cmd, stdout=subprocess.PIPE, stderr=subprocess.STDOUT, text=True, **kw)
    return p.returncode, p.stdout


def main():
    args = sys.argv[1:]
    tier = "quick"
    if "--tier" in args:
        i = args.index("--tier")
        tier = args[i + 1]
        del args[i:i + 2]
    ids = args or sorted(os.path.basename(os.path.dirname(p)) for p in glob.glob(os.path.join(ROOT, "seeded", "*", "patch.diff")))
    rc, out = sh(["git", "-C", REPO, "status", "--porcelain", "--untracked-files=no"])
    if out.strip():
        print("/repo is not clean:\n" + out)
        return 2
    resp = os.path.join(ROOT, "seeded", "RESULTS.json")
    results = json.load(open(resp)) if os.path.exists(resp) else {}
    evdir = os.path.join(ROOT, "evidence")
    bak = os.path.join(ROOT, "work", "evidence.bak")
    shutil.rmtree(bak, ignore_errors=True)
    shutil.copytree(evdir, bak)
    try:
        for sid in ids:
            d = os.path.join(ROOT, "seeded", sid)
            meta = json.load(open(os.path.join(d, "meta.json")))
            props = meta.get("checks") or [meta["property"]]
            rc, out = sh(["git", "-C", REPO, "apply", os.path.join(d, "patch.diff")])
            if rc != 0:
                results[sid] = {"property": meta["property"], "applied": False, "detail": out[-300:]}
                print(sid, "patch does not apply:", out[-200:])
                continue
            entry = {"property": meta["property"], "applied": True, "tier": tier, "checks": {}}
            try:
                for pid in props:
                    t0 = time.time()
                    rc, out = sh([os.path.join(ROOT, "check"), pid, "--tier", tier], cwd=ROOT)
                    vio = [l for l in out.split("\n") if l.startswith("VIOLATION")]
                    entry["checks"][pid] = {"exit": rc, "violation": vio[:2], "wall_s": round(time.time() - t0, 1),
                                            "summary": [l for l in out.split("\n") if l.startswith(pid + " tier=")][:1]}
                    print(sid, pid, "exit", rc, vio[:1])
            finally:
                sh(["git", "-C", REPO, "checkout", "--", "."])
            entry["caught"] = any(c["exit"] == 1 and c["violation"] for c in entry["checks"].values())
            entry["with_failing_input"] = any(c["violation"] and "no-failing-input-found" not in c["violation"][0]
                                              for c in entry["checks"].values())
            results[sid] = entry
    finally:
        sh(["git", "-C", REPO, "checkout", "--", "."])
        shutil.rmtree(evdir, ignore_errors=True)
        shutil.copytree(bak, evdir)
        shutil.rmtree(os.path.join(ROOT, "replay"), ignore_errors=True)
    json.dump(results, open(resp, "w"), indent=1, sort_keys=True)
    with open(os.path.join(ROOT, "seeded", "RESULTS.md"), "w") as f:
        f.write("| seeded change | property | caught | replay has failing input | check exit / wall |\n|---|---|---|---|---|\n")
        for sid in sorted(results):
            e = results[sid]
            if not e.get("applied"):
                f.write("| %s | %s | patch no longer applies | | |\n" % (sid, e["property"]))
                continue
            f.write("| %s | %s | %s | %s | %s |\n" % (sid, e["property"], "yes" if e["caught"] else "NO",
                    "yes" if e["with_failing_input"] else "no",
                    "; ".join("%s: %d / %.0fs" % (p, c["exit"], c["wall_s"]) for p, c in e["checks"].items())))
    return 0


if __name__ == "__main__":
    sys.exit(main())
