#!/bin/sh
# validate MANIFEST.json and every evidence file against the schemas (development aid)
cd /verif && python3-vt - <<'PY'
import json, jsonschema, glob
jsonschema.validate(json.load(open('MANIFEST.json')), json.load(open('/root/.vp/MANIFEST.schema.json')))
es = json.load(open('/root/.vp/EVIDENCE.schema.json'))
man = json.load(open('MANIFEST.json'))
claimed = {c['property_id'] for c in man['checks']}
na = {c['property_id'] for c in man.get('not_applicable', [])}
props = [json.loads(l)['id'] for l in open('properties.jsonl') if l.strip()]
assert set(props) == claimed | na and not (claimed & na), (claimed, na)
for pid in sorted(claimed):
    e = json.load(open('evidence/%s.json' % pid))
    jsonschema.validate(e, es)
    c = e['coverage']
    print(pid, e['tier'], 'obl %s/%s' % (c.get('discharged'), c.get('obligations')), 'cases', c.get('evaluations'), 'nt', c.get('distinct_nontrivial'), 'viol', e.get('violations'), 'wall', e['wall_s'])
print('all valid; claimed', len(claimed), 'not_applicable', len(na))
PY
