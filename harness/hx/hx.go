// Package hx is the small framework shared by every property's harness code.
//
// A property registers a generator (which only produces *inputs*, every random choice
// coming from one PRNG seeded by VERIF_SEED) and an executor (which runs the real
// biogo code on one input and returns a canonical *observation*).  The runner writes
// one line per case, "<input>\t<observation>", which the Lean driver reads.
package hx

import (
	"bufio"
	"encoding/hex"
	"fmt"
	"math/rand"
	"os"
	"sort"
	"strconv"
	"strings"
	"time"
)

// Prop is one property's tie to the implementation.
type Prop struct {
	ID string
	// Part names one of several independent harness parts of the same property
	// (e.g. C03 "seq" and "feat"); Ops lists the first tokens of the inputs this part
	// executes. A property with a single part may leave both empty.
	Part string
	Ops  []string
	// Weight is this part's share of the case/time budget (0 = 1).
	Weight int
	// Gen emits inputs through g.Case. It must stop when g.Done() is true.
	Gen func(g *Gen)
	// Exec runs the implementation on one input. Panics are caught by the runner
	// and reported as the observation "panic:<hex message>".
	Exec func(input string) string
	// Timeout per Exec call (0 = 20s). A case that exceeds it is observed as "hang".
	Timeout time.Duration
	// Shrink proposes strictly shorter neighbours of a failing input (optional).
	Shrink func(input string) []string
	// NoRecover: the executor handles panics/hangs itself (e.g. child processes).
	NoRecover bool
}

var registry = map[string]*Prop{}
var parts = map[string][]*Prop{}

// Register adds a property, or one more part of a property that is already registered.
func Register(p *Prop) {
	parts[p.ID] = append(parts[p.ID], p)
	ps := parts[p.ID]
	if len(ps) == 1 {
		registry[p.ID] = p
		return
	}
	sort.Slice(ps, func(i, j int) bool { return ps[i].Part < ps[j].Part })
	for _, q := range ps {
		if len(q.Ops) == 0 {
			panic("hx: property " + p.ID + " has several parts; each needs Ops")
		}
	}
	find := func(input string) *Prop {
		op := input
		if i := strings.IndexByte(input, ' '); i >= 0 {
			op = input[:i]
		}
		for _, q := range parts[p.ID] {
			for _, o := range q.Ops {
				if o == op {
					return q
				}
			}
		}
		return nil
	}
	registry[p.ID] = &Prop{
		ID:        p.ID,
		NoRecover: true, // each part is wrapped by SafeExec below
		Exec: func(input string) string {
			q := find(input)
			if q == nil {
				return "bad-op"
			}
			return SafeExec(q, input)
		},
		Shrink: func(input string) []string {
			if q := find(input); q != nil && q.Shrink != nil {
				return q.Shrink(input)
			}
			return nil
		},
		Gen: func(g *Gen) {
			total := 0
			for _, q := range parts[p.ID] {
				if q.Weight == 0 {
					q.Weight = 1
				}
				total += q.Weight
			}
			start := time.Now()
			var span time.Duration
			if !g.deadline.IsZero() {
				span = g.deadline.Sub(start)
			}
			used := 0
			for _, q := range parts[p.ID] {
				sub := *g
				sub.n = 0
				if g.max > 0 {
					sub.max = g.max * q.Weight / total
					if sub.max == 0 {
						sub.max = 1
					}
				}
				if span > 0 {
					used += q.Weight
					sub.deadline = start.Add(span * time.Duration(used) / time.Duration(total))
				}
				q.Gen(&sub)
				g.n += sub.n
			}
		},
	}
}

func Lookup(id string) *Prop { return registry[id] }

func IDs() []string {
	var ids []string
	for id := range registry {
		ids = append(ids, id)
	}
	sort.Strings(ids)
	return ids
}

// Gen is handed to generators.
type Gen struct {
	*rand.Rand
	Tier     string // "quick" or "thorough"
	Focus    bool   // the check asked for a widened search (a proof or correspondence broke)
	Seed     int64
	deadline time.Time
	max      int
	n        int
	emit     func(string)
}

// Thorough reports whether the deep tier (or a focused search) was requested.
func (g *Gen) Thorough() bool { return g.Tier == "thorough" || g.Focus }

// Scale returns q in the quick tier and t in the thorough tier.
func (g *Gen) Scale(q, t int) int {
	if g.Thorough() {
		return t
	}
	return q
}

// Case emits one input.
func (g *Gen) Case(input string) {
	if strings.ContainsAny(input, "\t\n") {
		panic("hx: input contains tab or newline: " + input)
	}
	g.n++
	g.emit(input)
}

// Casef is Case with formatting.
func (g *Gen) Casef(format string, a ...interface{}) { g.Case(fmt.Sprintf(format, a...)) }

// Done reports whether the case or time budget is used up.
func (g *Gen) Done() bool {
	if g.max > 0 && g.n >= g.max {
		return true
	}
	return !g.deadline.IsZero() && time.Now().After(g.deadline)
}

// N is the number of cases emitted so far.
func (g *Gen) N() int { return g.n }

// Pick returns one of the ints.
func (g *Gen) Pick(xs ...int) int { return xs[g.Intn(len(xs))] }

// Range returns a uniform int in [lo,hi].
func (g *Gen) Range(lo, hi int) int {
	if hi <= lo {
		return lo
	}
	return lo + g.Intn(hi-lo+1)
}

// Bool returns true with probability p.
func (g *Gen) Chance(p float64) bool { return g.Float64() < p }

// Letters returns n letters drawn from alphabet.
func (g *Gen) Letters(alphabet string, n int) []byte {
	b := make([]byte, n)
	for i := range b {
		b[i] = alphabet[g.Intn(len(alphabet))]
	}
	return b
}

// Hex encodes a byte string as one token ("-" when empty).
func Hex(b []byte) string {
	if len(b) == 0 {
		return "-"
	}
	return hex.EncodeToString(b)
}

// Unhex is the inverse of Hex; it panics on malformed input (inputs come from Gen).
func Unhex(s string) []byte {
	if s == "-" {
		return nil
	}
	b, err := hex.DecodeString(s)
	if err != nil {
		panic("hx: bad hex token " + s)
	}
	return b
}

// Ints renders a comma separated integer list ("-" when empty).
func Ints(xs []int) string {
	if len(xs) == 0 {
		return "-"
	}
	ss := make([]string, len(xs))
	for i, x := range xs {
		ss[i] = strconv.Itoa(x)
	}
	return strings.Join(ss, ",")
}

// ParseInts is the inverse of Ints.
func ParseInts(s string) []int {
	if s == "-" || s == "" {
		return nil
	}
	var xs []int
	for _, f := range strings.Split(s, ",") {
		xs = append(xs, Atoi(f))
	}
	return xs
}

// Atoi parses an int and panics on failure.
func Atoi(s string) int {
	n, err := strconv.Atoi(s)
	if err != nil {
		panic("hx: bad int token " + s)
	}
	return n
}

// B renders a bool as 1/0.
func B(b bool) string {
	if b {
		return "1"
	}
	return "0"
}

// Fields splits an input into its tokens.
func Fields(s string) []string { return strings.Fields(s) }

// SafeExec runs p.Exec with panic capture and a watchdog.
func SafeExec(p *Prop, input string) (obs string) {
	if p.NoRecover {
		return p.Exec(input)
	}
	timeout := p.Timeout
	if timeout == 0 {
		timeout = 20 * time.Second
	}
	// VERIF_TIMEOUT_SCALE lengthens every watchdog: the check uses it to re-execute, alone
	// and unhurried, an input that was observed as "hang" on a loaded machine
	if sc, err := strconv.Atoi(os.Getenv("VERIF_TIMEOUT_SCALE")); err == nil && sc > 1 {
		timeout *= time.Duration(sc)
	}
	ch := make(chan string, 1)
	go func() {
		defer func() {
			if r := recover(); r != nil {
				ch <- "panic:" + Hex([]byte(fmt.Sprint(r)))
			}
		}()
		ch <- p.Exec(input)
	}()
	select {
	case o := <-ch:
		return o
	case <-time.After(timeout):
		return "hang"
	}
}

func clean(obs string) string {
	if strings.ContainsAny(obs, "\t\n") {
		obs = strings.NewReplacer("\t", " ", "\n", " ").Replace(obs)
	}
	return obs
}

// Run generates cases for p and writes "<input>\t<obs>" lines to w.
// corpus lines (inputs) are executed first.
func Run(p *Prop, seed int64, tier string, focus bool, max int, budget time.Duration, corpus []string, w *bufio.Writer) int {
	count := 0
	emit := func(input string) {
		// write the input first and flush, so that a crash of the process leaves the
		// offending input as the trailing partial line
		w.WriteString(input)
		w.WriteByte('\t')
		w.Flush()
		w.WriteString(clean(SafeExec(p, input)))
		w.WriteByte('\n')
		count++
	}
	for _, c := range corpus {
		emit(c)
	}
	g := &Gen{Rand: rand.New(rand.NewSource(seed)), Tier: tier, Focus: focus, Seed: seed, max: max, emit: emit}
	if budget > 0 {
		g.deadline = time.Now().Add(budget)
	}
	p.Gen(g)
	w.Flush()
	return count
}

// ExecLines executes inputs read from r (one per line) and writes case lines.
func ExecLines(p *Prop, r *bufio.Scanner, w *bufio.Writer) {
	for r.Scan() {
		line := strings.TrimRight(r.Text(), "\r\n")
		if line == "" || strings.HasPrefix(line, "#") {
			continue
		}
		if i := strings.IndexByte(line, '\t'); i >= 0 {
			line = line[:i]
		}
		w.WriteString(line)
		w.WriteByte('\t')
		w.Flush()
		w.WriteString(clean(SafeExec(p, line)))
		w.WriteByte('\n')
	}
	w.Flush()
}

// Fatalf prints and exits with status 2 (harness failure, not a violation).
func Fatalf(format string, a ...interface{}) {
	fmt.Fprintf(os.Stderr, "harness: "+format+"\n", a...)
	os.Exit(2)
}
