package hx

import (
	"fmt"
	"os"
	"path/filepath"
	"sort"
)

// A FactGen regenerates one Lean file under Biogo/Generated from the repository's
// current source (by parsing it) or from the running package (by dumping values).
type FactGen struct {
	File string // e.g. "Alphabets.lean"
	Gen  func(repo string) (string, error)
}

var factGens []FactGen

func RegisterFacts(f FactGen) { factGens = append(factGens, f) }

// RunFactGens writes every registered fact file into dir. A generator that fails
// still writes a file (so that the Lean build reports the broken tie by name).
func RunFactGens(repo, dir string) error {
	if err := os.MkdirAll(dir, 0o755); err != nil {
		return err
	}
	sort.Slice(factGens, func(i, j int) bool { return factGens[i].File < factGens[j].File })
	var firstErr error
	for _, f := range factGens {
		body, err := f.Gen(repo)
		if err != nil {
			fmt.Fprintf(os.Stderr, "harness: fact generator %s failed: %v\n", f.File, err)
			body = fmt.Sprintf("-- GENERATION FAILED: %v\n#eval (throw (IO.userError \"fact generation failed for %s\") : IO Unit)\n", err, f.File)
			if firstErr == nil {
				firstErr = fmt.Errorf("%s: %v", f.File, err)
			}
		}
		hdr := "-- GENERATED from /repo on every check run by `harness gen`; do not edit.\n"
		if err := os.WriteFile(filepath.Join(dir, f.File), []byte(hdr+body), 0o644); err != nil {
			return err
		}
	}
	return firstErr
}

var modes = map[string]func(args []string) int{}

// RegisterMode adds a property-specific subcommand (used for child-process isolation).
func RegisterMode(name string, f func(args []string) int) { modes[name] = f }

func LookupMode(name string) func(args []string) int { return modes[name] }
