module verif/harness

go 1.14

require github.com/biogo/biogo v0.0.0

replace github.com/biogo/biogo => /repo
