// Command harness drives the real biogo code (built from /repo's working tree through
// the replace directive in go.mod) for the /verif checks.
//
//	harness run  <Cxx> -seed N -tier quick|thorough [-focus] [-max N] [-budget 60s] [-corpus f] [-out f]
//	harness exec <Cxx>            inputs on stdin, case lines on stdout
//	harness gen  -repo /repo -dir <lean/Biogo/Generated>     regenerate Lean fact files
//	harness list
package main

import (
	"bufio"
	"flag"
	"fmt"
	"os"
	"strings"
	"time"

	"verif/harness/hx"
	_ "verif/harness/props"
)

func main() {
	if len(os.Args) < 2 {
		hx.Fatalf("usage: harness run|exec|gen|list ...")
	}
	switch os.Args[1] {
	case "list":
		fmt.Println(strings.Join(hx.IDs(), " "))
	case "gen":
		fs := flag.NewFlagSet("gen", flag.ExitOnError)
		repo := fs.String("repo", "/repo", "repository root")
		dir := fs.String("dir", "", "output directory for Generated/*.lean")
		fs.Parse(os.Args[2:])
		if *dir == "" {
			hx.Fatalf("gen: -dir required")
		}
		if err := hx.RunFactGens(*repo, *dir); err != nil {
			// individual failures were printed ("fact generator X failed"); the caller
			// substitutes baseline copies and reports the broken tie
			fmt.Fprintf(os.Stderr, "harness: gen: %v\n", err)
		}
	case "run":
		if len(os.Args) < 3 {
			hx.Fatalf("run: property id required")
		}
		p := hx.Lookup(os.Args[2])
		if p == nil {
			hx.Fatalf("unknown property %s", os.Args[2])
		}
		fs := flag.NewFlagSet("run", flag.ExitOnError)
		seed := fs.Int64("seed", 1, "PRNG seed")
		tier := fs.String("tier", "quick", "quick or thorough")
		focus := fs.Bool("focus", false, "widened search")
		max := fs.Int("max", 0, "maximum number of generated cases (0 = generator's own bound)")
		budget := fs.Duration("budget", 0, "time budget for generation (0 = none)")
		corpus := fs.String("corpus", "", "file of inputs to run first")
		out := fs.String("out", "", "output file (default stdout)")
		fs.Parse(os.Args[3:])
		var corp []string
		if *corpus != "" {
			if f, err := os.Open(*corpus); err == nil {
				sc := bufio.NewScanner(f)
				sc.Buffer(make([]byte, 1<<20), 1<<28)
				for sc.Scan() {
					l := strings.TrimSpace(sc.Text())
					if l == "" || strings.HasPrefix(l, "#") {
						continue
					}
					if i := strings.IndexByte(l, '\t'); i >= 0 {
						l = l[:i]
					}
					corp = append(corp, l)
				}
				f.Close()
			}
		}
		w := bufio.NewWriterSize(os.Stdout, 1<<16)
		if *out != "" {
			f, err := os.Create(*out)
			if err != nil {
				hx.Fatalf("%v", err)
			}
			defer f.Close()
			w = bufio.NewWriterSize(f, 1<<16)
		}
		start := time.Now()
		n := hx.Run(p, *seed, *tier, *focus, *max, *budget, corp, w)
		fmt.Fprintf(os.Stderr, "harness: %s cases=%d corpus=%d wall=%.1fs\n", p.ID, n, len(corp), time.Since(start).Seconds())
	case "exec":
		if len(os.Args) < 3 {
			hx.Fatalf("exec: property id required")
		}
		p := hx.Lookup(os.Args[2])
		if p == nil {
			hx.Fatalf("unknown property %s", os.Args[2])
		}
		sc := bufio.NewScanner(os.Stdin)
		sc.Buffer(make([]byte, 1<<20), 1<<28)
		w := bufio.NewWriterSize(os.Stdout, 1<<16)
		hx.ExecLines(p, sc, w)
	case "shrink":
		// candidates for a smaller failing input, one per line (empty when the property has no shrinker)
		if len(os.Args) < 3 {
			hx.Fatalf("shrink: property id required")
		}
		p := hx.Lookup(os.Args[2])
		if p == nil {
			hx.Fatalf("unknown property %s", os.Args[2])
		}
		sc := bufio.NewScanner(os.Stdin)
		sc.Buffer(make([]byte, 1<<20), 1<<28)
		w := bufio.NewWriterSize(os.Stdout, 1<<16)
		for sc.Scan() {
			if p.Shrink == nil {
				break
			}
			for _, c := range p.Shrink(strings.TrimSpace(sc.Text())) {
				w.WriteString(c)
				w.WriteByte('\n')
			}
		}
		w.Flush()
	default:
		// property-specific child modes (e.g. crash isolation) register themselves here
		if f := hx.LookupMode(os.Args[1]); f != nil {
			os.Exit(f(os.Args[2:]))
		}
		hx.Fatalf("unknown subcommand %s", os.Args[1])
	}
}
