package props

// C09, part "aff": the inputs of C08 (affine aligners) plus ill-typed ones — a letter
// outside the alphabet at every position of each sequence, differing alphabets, Letters
// against QLetters, matrices that are short, ragged, or square but undersized, an alphabet
// without a leading gap letter, a nil alphabet.  Input and observation formats: c08_aff.go.

import (
	"fmt"
	"strings"

	"verif/harness/hx"
)

const affUnit5 = "0,-1,-1,-1,-1;-1,1,-1,-1,-1;-1,-1,1,-1,-1;-1,-1,-1,1,-1;-1,-1,-1,-1,1"

func affIllTyped(g *hx.Gen) {
	fam := affFamily()
	// an illegal letter at every position of either sequence (and in both)
	seqs := affAllSeqs("ac", g.Scale(3, 4))
	bad := []byte{'!', 'n', 0, 0xff}
	for _, op := range affOps {
		for _, r := range seqs {
			for _, q := range seqs {
				if g.Done() {
					return
				}
				for i := range r {
					rb := append([]byte{}, r...)
					rb[i] = bad[(i+len(q))%len(bad)]
					g.Casef("%s DNAgapped DNAgapped l l -2 %s %s %s", op, fam[0], hx.Hex(rb), hx.Hex(q))
				}
				for j := range q {
					qb := append([]byte{}, q...)
					qb[j] = bad[(j+len(r))%len(bad)]
					g.Casef("%s DNAgapped DNAgapped l l -2 %s %s %s", op, fam[0], hx.Hex(r), hx.Hex(qb))
				}
				if len(r) > 1 && len(q) > 1 {
					rb := append([]byte{}, r...)
					qb := append([]byte{}, q...)
					rb[len(r)-1] = '!'
					qb[0] = '?'
					g.Casef("%s DNAgapped DNAgapped q q -2 %s %s %s", op, fam[0], hx.Hex(rb), hx.Hex(qb))
				}
			}
		}
	}
	// alphabets, slice types, matrix shapes
	names := []string{"DNAgapped", "DNAredundant", "RNAgapped", "RNAredundant", "Protein", "DNA", "RNA", "none"}
	matrices := []string{
		affUnit5,
		"0,-1,-1,-1;-1,1,-1,-1;-1,-1,1,-1;-1,-1,-1,1", // square but undersized for 5 letters
		"0,-1,-1,-1,-1;-1,1,-1,-1,-1;-1,-1,1,-1,-1;-1,-1,-1,1,-1", // short: 4 rows of 5
		"0,-1,-1,-1,-1;-1,1,-1,-1;-1,-1,1,-1,-1;-1,-1,-1,1,-1;-1,-1,-1,-1,1",    // ragged
		"0,-1,-1,-1,-1,-1;-1,1,-1,-1,-1,-1;-1,-1,1,-1,-1,-1;-1,-1,-1,1,-1,-1;-1,-1,-1,-1,1,-1", // 5 rows of 6
		"-",
		"0",
		affMatrixString(6, func(i, j int) int {
			if i == j && i > 0 {
				return 1
			}
			if i == 0 && j == 0 {
				return 0
			}
			return -1
		}), // larger than the alphabet: accepted
		affMatrixString(16, func(i, j int) int {
			if i == j && i > 0 {
				return 2
			}
			if i == 0 && j == 0 {
				return 0
			}
			return -1
		}),
	}
	pairs := [][2]string{{"acca", "aca"}, {"a", "c"}, {"acgt", "ac!t"}, {"gattaca", "gatca"}}
	for _, op := range affOps {
		for _, ra := range names {
			for _, qa := range names {
				for _, ty := range []string{"l l", "q q", "l q", "q l"} {
					for mi, m := range matrices {
						if g.Done() {
							return
						}
						// the full product only for the first matrix; otherwise same alphabets
						if mi > 0 && (ra != qa || ty == "l q" || ty == "q l") && !g.Chance(0.05) {
							continue
						}
						p := pairs[g.Intn(len(pairs))]
						g.Casef("%s %s %s %s -2 %s %s %s", op, ra, qa, ty, m, hx.Hex([]byte(p[0])), hx.Hex([]byte(p[1])))
					}
				}
			}
		}
	}
}

func affRandomIllTyped(g *hx.Gen) string {
	c := strings.Fields(affRandomCase(g, 40))
	switch g.Intn(6) {
	case 0, 1: // plant an illegal letter
		k := 7 + g.Intn(2)
		b := hx.Unhex(c[k])
		b[g.Intn(len(b))] = byte(g.Pick('!', '.', 0, 200, '-'+1, 'o'))
		c[k] = hx.Hex(b)
	case 2: // other alphabet for the query
		c[2] = []string{"DNAgapped", "DNAredundant", "Protein", "RNAgapped", "DNA"}[g.Intn(5)]
	case 3: // mixed slice types
		if c[3] == "l" {
			c[4] = "q"
		} else {
			c[4] = "l"
		}
	case 4: // drop a row or an entry of the matrix
		rows := strings.Split(c[6], ";")
		if g.Chance(0.5) {
			rows = rows[:len(rows)-1-g.Intn(2)]
		} else {
			i := g.Intn(len(rows))
			xs := strings.Split(rows[i], ",")
			rows[i] = strings.Join(xs[:len(xs)-1], ",")
		}
		c[6] = strings.Join(rows, ";")
	case 5: // square but smaller than the alphabet
		rows := strings.Split(c[6], ";")
		n := len(rows) - 1 - g.Intn(2)
		if n < 1 {
			n = 1
		}
		rows = rows[:n]
		for i := range rows {
			rows[i] = strings.Join(strings.Split(rows[i], ",")[:n], ",")
		}
		c[6] = strings.Join(rows, ";")
	}
	return strings.Join(c, " ")
}

func c09AffGen(g *hx.Gen) {
	fam := affFamily()
	affIllTyped(g)
	affExhaustive(g, "ac", 3, fam, []int{0, -1, -3})
	// positive gap-open values (inside C09's quantifier "every gap-open value", outside C08's
	// domain): with them a gap run that directly follows a gap run in the other sequence can pay
	// off in either order, which is the only way to reach the traceback case "left from up"
	// (for gap-open <= 0 the symmetric "up from left" path always ties and is tested first)
	affExhaustive(g, "ac", 3, []string{fam[0], fam[2], fam[4], fam[8]}, []int{1, 2})
	if g.Thorough() {
		affExhaustive(g, "ac", 4, []string{fam[2], fam[4], fam[5], fam[8]}, []int{0, -2})
		affExhaustive(g, "acg", 3, []string{fam[1], fam[8]}, []int{-1})
	}
	n := g.Scale(4000, 60000)
	for k := 0; k < n && !g.Done(); k++ {
		if k%4 == 0 {
			g.Case(affRandomIllTyped(g))
		} else {
			g.Case(affRandomCase(g, g.Scale(60, 200)))
		}
	}
	_ = fmt.Sprint
}

func init() {
	hx.Register(&hx.Prop{ID: "C09", Part: "aff", Ops: affOps, Gen: c09AffGen, Exec: affExec, Shrink: affShrink})
}
