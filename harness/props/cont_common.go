package props

// Shared by C05 and C07: histories of operations on the sequence containers
// (linear.Seq/QSeq, alignment.Seq/QSeq, multi.Multi, multi.Set) executed on the real code,
// with a full observation of every live object after every operation.
//
// Input   <tag> <alphabet> <kind> <strand> <rows> <op> <op> ...
//   kind   lin | qlin | aln | qaln | multi | set
//   rows   seqspec+seqspec+...      seqspec = q,off,strand,name,hexL,hexQ     ("-" = none)
//   ops    rc.k rv.k cl.k st.k.r.pos.L.Q rrc.k.r rrv.k.r
//          mkb.hexL.hexQ.extra mut.b.i.L.Q ac.k.b,b,.. ae.k.b,b,.. add.k.seqspec+..
//          del.k.i fl.k.where.fill sub.k.s.e tr.k.s.e
//   k is the object index (0 = the initial object; Clone and Subseq append objects),
//   b a caller-owned buffer index (mkb appends buffers).
//
// Observation  snapshot|snapshot|...   one after construction and one after every op
//   snapshot  status/obj/obj/...       status = ok | err ; "=" = same as previous snapshot
//   obj       head!rows!cols!colsQL!colsNF!cons
//     head    kind,strand,start,end,nrows,len
//     rows    start,end,strand,name,q,hexL,hexQ;...       At(p) for p over the span
//     cols    hex;...        Column(p, true)  for p in [Start,End)
//     colsQL  hexL.hexQ;...  ColumnQL(p, true)
//     colsNF  hex;...        Column(p, false) (multi only)
//     cons    hex            Consensus(false) letters

import (
	"fmt"
	"strconv"
	"strings"

	"github.com/biogo/biogo/alphabet"
	"github.com/biogo/biogo/seq"
	"github.com/biogo/biogo/seq/alignment"
	"github.com/biogo/biogo/seq/linear"
	"github.com/biogo/biogo/seq/multi"

	"verif/harness/hx"
)

type contObj struct {
	kind  string
	lin   seq.Sequence
	aln   *alignment.Seq
	qaln  *alignment.QSeq
	multi *multi.Multi
	set   multi.Set
}

type seqSpec struct {
	q      bool
	off    int
	strand int
	name   int
	ls, qs []byte
}

func (s seqSpec) String() string {
	return fmt.Sprintf("%s,%d,%d,%d,%s,%s", hx.B(s.q), s.off, s.strand, s.name, hx.Hex(s.ls), hx.Hex(s.qs))
}

func parseSeqSpec(s string) seqSpec {
	f := strings.Split(s, ",")
	if len(f) != 6 {
		panic("cont: bad seqspec " + s)
	}
	return seqSpec{q: f[0] == "1", off: hx.Atoi(f[1]), strand: hx.Atoi(f[2]), name: hx.Atoi(f[3]), ls: hx.Unhex(f[4]), qs: hx.Unhex(f[5])}
}

func parseSeqSpecs(s string) []seqSpec {
	if s == "-" {
		return nil
	}
	var out []seqSpec
	for _, p := range strings.Split(s, "+") {
		out = append(out, parseSeqSpec(p))
	}
	return out
}

func joinSpecs(sp []seqSpec) string {
	if len(sp) == 0 {
		return "-"
	}
	ss := make([]string, len(sp))
	for i, s := range sp {
		ss[i] = s.String()
	}
	return strings.Join(ss, "+")
}

func qletters(ls, qs []byte) []alphabet.QLetter {
	out := make([]alphabet.QLetter, len(ls))
	for i := range ls {
		out[i] = alphabet.QLetter{L: alphabet.Letter(ls[i]), Q: alphabet.Qphred(qs[i])}
	}
	return out
}

func rowName(n int) string { return "r" + strconv.Itoa(n) }

func nameNum(s string) int {
	if strings.HasPrefix(s, "r") {
		if n, err := strconv.Atoi(s[1:]); err == nil {
			return n
		}
	}
	return 999999
}

func newLinear(sp seqSpec, a alphabet.Alphabet) seq.Sequence {
	if sp.q {
		s := linear.NewQSeq(rowName(sp.name), qletters(sp.ls, sp.qs), a, alphabet.Sanger)
		s.SetOffset(sp.off)
		s.Strand = seq.Strand(sp.strand)
		return s
	}
	s := linear.NewSeq(rowName(sp.name), alphabet.BytesToLetters(append([]byte(nil), sp.ls...)), a)
	s.SetOffset(sp.off)
	s.Strand = seq.Strand(sp.strand)
	return s
}

func contInit(a alphabet.Alphabet, kind string, strand int, rows []seqSpec) *contObj {
	o := &contObj{kind: kind}
	switch kind {
	case "lin", "qlin":
		sp := rows[0]
		sp.q = kind == "qlin"
		o.lin = newLinear(sp, a)
	case "aln", "qaln":
		n := 0
		if len(rows) > 0 {
			n = len(rows[0].ls)
		}
		var ids []string
		if n > 0 {
			for _, r := range rows {
				ids = append(ids, rowName(r.name))
			}
		}
		if kind == "aln" {
			cols := make([][]alphabet.Letter, n)
			for i := range cols {
				cols[i] = make([]alphabet.Letter, len(rows))
				for r := range rows {
					cols[i][r] = alphabet.Letter(rows[r].ls[i])
				}
			}
			s, err := alignment.NewSeq("a", ids, cols, a, seq.DefaultConsensus)
			if err != nil {
				panic(err)
			}
			s.Strand = seq.Strand(strand)
			for r := range s.SubAnnotations {
				s.SubAnnotations[r].Strand = seq.Strand(rows[r].strand)
			}
			o.aln = s
		} else {
			cols := make([][]alphabet.QLetter, n)
			for i := range cols {
				cols[i] = make([]alphabet.QLetter, len(rows))
				for r := range rows {
					cols[i][r] = alphabet.QLetter{L: alphabet.Letter(rows[r].ls[i]), Q: alphabet.Qphred(rows[r].qs[i])}
				}
			}
			s, err := alignment.NewQSeq("a", ids, cols, a, alphabet.Sanger, seq.DefaultConsensus)
			if err != nil {
				panic(err)
			}
			s.Strand = seq.Strand(strand)
			for r := range s.SubAnnotations {
				s.SubAnnotations[r].Strand = seq.Strand(rows[r].strand)
			}
			o.qaln = s
		}
	case "multi", "set":
		ss := make([]seq.Sequence, len(rows))
		for i, r := range rows {
			ss[i] = newLinear(r, a)
		}
		if kind == "multi" {
			m, err := multi.NewMulti("m", ss, seq.DefaultConsensus)
			if err != nil {
				panic(err)
			}
			o.multi = m
		} else {
			o.set = multi.Set(ss)
		}
	default:
		panic("cont: bad kind " + kind)
	}
	return o
}

func hexQLs(qls []alphabet.QLetter) (string, string) {
	ls := make([]byte, len(qls))
	qs := make([]byte, len(qls))
	for i, q := range qls {
		ls[i], qs[i] = byte(q.L), byte(q.Q)
	}
	return hx.Hex(ls), hx.Hex(qs)
}

func rowObs(r seq.Sequence, from, to int) string {
	qls := make([]alphabet.QLetter, 0, to-from)
	for p := from; p < to; p++ {
		qls = append(qls, r.At(p))
	}
	hl, hq := hexQLs(qls)
	ann := r.CloneAnnotation()
	q := false
	switch r.(type) {
	case *linear.QSeq, alignment.QRow:
		q = true
	}
	return fmt.Sprintf("%d,%d,%d,%d,%s,%s,%s", r.Start(), r.End(), int(ann.Strand), nameNum(r.Name()), hx.B(q), hl, hq)
}

type alignedRower interface {
	seq.Aligned
	Row(i int) seq.Sequence
}

func (o *contObj) observe() string {
	var head string
	var rows, cols, colsQL, colsNF []string
	cons := ""
	aligned := func(a alignedRower, n int, nofill bool, consensus *linear.QSeq) {
		for p := a.Start(); p < a.End(); p++ {
			cols = append(cols, hx.Hex(alphabet.LettersToBytes(append([]alphabet.Letter(nil), a.Column(p, true)...))))
			hl, hq := hexQLs(a.ColumnQL(p, true))
			colsQL = append(colsQL, hl+"."+hq)
			if nofill {
				colsNF = append(colsNF, hx.Hex(alphabet.LettersToBytes(append([]alphabet.Letter(nil), a.Column(p, false)...))))
			}
		}
		if len(consensus.Seq) > 0 {
			hl, _ := hexQLs(consensus.Seq)
			cons = hl
		}
	}
	switch o.kind {
	case "lin", "qlin":
		l := o.lin
		head = fmt.Sprintf("%s,%d,%d,%d,1,%d", o.kind, int(l.CloneAnnotation().Strand), l.Start(), l.End(), l.Len())
		rows = append(rows, rowObs(l, l.Start(), l.End()))
	case "aln":
		a := o.aln
		n := 0
		if a.Len() > 0 {
			n = a.Rows()
		}
		head = fmt.Sprintf("aln,%d,%d,%d,%d,%d", int(a.Strand), a.Start(), a.End(), n, a.Len())
		for r := 0; r < n; r++ {
			rows = append(rows, rowObs(a.Row(r), a.Start(), a.End()))
		}
		aligned(a, n, false, a.Consensus(false))
	case "qaln":
		a := o.qaln
		n := 0
		if a.Len() > 0 {
			n = a.Rows()
		}
		head = fmt.Sprintf("qaln,%d,%d,%d,%d,%d", int(a.Strand), a.Start(), a.End(), n, a.Len())
		for r := 0; r < n; r++ {
			rows = append(rows, rowObs(a.Row(r), a.Start(), a.End()))
		}
		aligned(a, n, false, a.Consensus(false))
	case "multi":
		m := o.multi
		head = fmt.Sprintf("multi,0,%d,%d,%d,%d", m.Start(), m.End(), m.Rows(), m.Len())
		for r := 0; r < m.Rows(); r++ {
			row := m.Row(r)
			rows = append(rows, rowObs(row, row.Start(), row.End()))
		}
		aligned(m, m.Rows(), true, m.Consensus(false))
	case "set":
		s := o.set
		head = fmt.Sprintf("set,0,0,0,%d,%d", s.Rows(), s.Len())
		for r := 0; r < s.Rows(); r++ {
			row := s.Row(r)
			rows = append(rows, rowObs(row, row.Start(), row.End()))
		}
	}
	return strings.Join([]string{head, strings.Join(rows, ";"), strings.Join(cols, ";"), strings.Join(colsQL, ";"), strings.Join(colsNF, ";"), cons}, "!")
}

func (o *contObj) row(r int) seq.Sequence {
	switch o.kind {
	case "lin", "qlin":
		return o.lin
	case "aln":
		return o.aln.Row(r)
	case "qaln":
		return o.qaln.Row(r)
	case "multi":
		return o.multi.Row(r)
	case "set":
		return o.set.Row(r)
	}
	panic("cont: row")
}

// contExec runs one history on the real code.
func contExec(input string) string {
	f := hx.Fields(input)
	if len(f) < 5 {
		panic("cont: bad input " + input)
	}
	a := builtinByName(f[1])
	objs := []*contObj{contInit(a, f[2], hx.Atoi(f[3]), parseSeqSpecs(f[4]))}
	var bufs [][]alphabet.QLetter
	var prev []string
	var out []string
	snapshot := func(status string) {
		parts := []string{status}
		cur := make([]string, len(objs))
		for i, o := range objs {
			cur[i] = o.observe()
			if i < len(prev) && prev[i] == cur[i] {
				parts = append(parts, "=")
			} else {
				parts = append(parts, cur[i])
			}
		}
		prev = cur
		out = append(out, strings.Join(parts, "/"))
	}
	snapshot("ok")
	pickBufs := func(s string) [][]alphabet.QLetter {
		var bs [][]alphabet.QLetter
		for _, b := range hx.ParseInts(s) {
			bs = append(bs, bufs[b])
		}
		return bs
	}
	for _, opS := range f[5:] {
		op := strings.Split(opS, ".")
		status := "ok"
		fail := func(err error) {
			if err != nil {
				status = "err"
			}
		}
		var o *contObj
		if op[0] != "mkb" && op[0] != "mut" {
			o = objs[hx.Atoi(op[1])]
		}
		switch op[0] {
		case "rc":
			switch o.kind {
			case "lin", "qlin":
				o.lin.RevComp()
			case "aln":
				o.aln.RevComp()
			case "qaln":
				o.qaln.RevComp()
			case "multi":
				o.multi.RevComp()
			case "set":
				o.set.RevComp()
			}
		case "rv":
			switch o.kind {
			case "lin", "qlin":
				o.lin.Reverse()
			case "aln":
				o.aln.Reverse()
			case "qaln":
				o.qaln.Reverse()
			case "multi":
				o.multi.Reverse()
			case "set":
				o.set.Reverse()
			}
		case "cl":
			c := &contObj{kind: o.kind}
			switch o.kind {
			case "lin", "qlin":
				c.lin = o.lin.Clone()
			case "aln":
				c.aln = o.aln.Clone().(*alignment.Seq)
			case "qaln":
				c.qaln = o.qaln.Clone().(*alignment.QSeq)
			case "multi":
				c.multi = o.multi.Clone().(*multi.Multi)
			default:
				panic("cont: clone of " + o.kind)
			}
			objs = append(objs, c)
		case "st":
			ql := alphabet.QLetter{L: alphabet.Letter(hx.Atoi(op[4])), Q: alphabet.Qphred(hx.Atoi(op[5]))}
			fail(o.row(hx.Atoi(op[2])).Set(hx.Atoi(op[3]), ql))
		case "rrc":
			o.row(hx.Atoi(op[2])).RevComp()
		case "rrv":
			o.row(hx.Atoi(op[2])).Reverse()
		case "mkb":
			qls := qletters(hx.Unhex(op[1]), hx.Unhex(op[2]))
			b := make([]alphabet.QLetter, len(qls), len(qls)+hx.Atoi(op[3]))
			copy(b, qls)
			bufs = append(bufs, b)
		case "mut":
			bufs[hx.Atoi(op[1])][hx.Atoi(op[2])] = alphabet.QLetter{L: alphabet.Letter(hx.Atoi(op[3])), Q: alphabet.Qphred(hx.Atoi(op[4]))}
		case "ac":
			bs := pickBufs(op[2])
			switch o.kind {
			case "aln":
				fail(o.aln.AppendColumns(bs...))
			case "qaln":
				fail(o.qaln.AppendColumns(bs...))
			case "multi":
				fail(o.multi.AppendColumns(bs...))
			default:
				panic("cont: ac on " + o.kind)
			}
		case "ae":
			bs := pickBufs(op[2])
			switch o.kind {
			case "aln":
				fail(o.aln.AppendEach(bs))
			case "qaln":
				fail(o.qaln.AppendEach(bs))
			case "multi":
				fail(o.multi.AppendEach(bs))
			default:
				panic("cont: ae on " + o.kind)
			}
		case "add":
			var ss []seq.Sequence
			for _, sp := range parseSeqSpecs(op[2]) {
				ss = append(ss, newLinear(sp, a))
			}
			switch o.kind {
			case "aln":
				fail(o.aln.Add(ss...))
			case "qaln":
				fail(o.qaln.Add(ss...))
			case "multi":
				fail(o.multi.Add(ss...))
			default:
				panic("cont: add on " + o.kind)
			}
		case "del":
			switch o.kind {
			case "aln":
				o.aln.Delete(hx.Atoi(op[2]))
			case "qaln":
				o.qaln.Delete(hx.Atoi(op[2]))
			case "multi":
				o.multi.Delete(hx.Atoi(op[2]))
			default:
				panic("cont: del on " + o.kind)
			}
		case "fl":
			o.multi.Flush(hx.Atoi(op[2]), alphabet.Letter(hx.Atoi(op[3])))
		case "sub":
			m, err := o.multi.Subseq(hx.Atoi(op[2]), hx.Atoi(op[3]))
			fail(err)
			if err == nil {
				objs = append(objs, &contObj{kind: "multi", multi: m})
			}
		case "tr":
			fail(o.multi.Truncate(hx.Atoi(op[2]), hx.Atoi(op[3])))
		default:
			panic("cont: bad op " + opS)
		}
		snapshot(status)
	}
	return strings.Join(out, "|")
}

// ---- generator helpers ----

var contAlphabets = []string{"DNA", "DNAgapped", "DNAredundant", "RNA", "RNAgapped", "RNAredundant"}

// pairedLetters returns the letters the complementor pairs (its pairing definition).
func pairedLetters(name string) []byte {
	c := builtinByName(name).(alphabet.Complementor)
	var out []byte
	for l := 0; l < 256; l++ {
		if _, ok := c.Complement(alphabet.Letter(l)); ok {
			out = append(out, byte(l))
		}
	}
	return out
}

func genQuals(g *hx.Gen, n int) []byte {
	qs := make([]byte, n)
	for i := range qs {
		switch g.Intn(10) {
		case 0:
			qs[i] = byte(g.Intn(3)) // around the alignment threshold
		case 1:
			qs[i] = byte(g.Pick(93, 254, 255, 60))
		default:
			qs[i] = byte(2 + g.Intn(40))
		}
	}
	return qs
}

func genLen(g *hx.Gen, max int) int {
	switch g.Intn(6) {
	case 0:
		return g.Intn(4)
	case 1:
		return g.Pick(0, 1, 2, 3, 4, 5, 6, 7, max-1, max)
	default:
		return g.Intn(max + 1)
	}
}

// contShrink proposes shorter histories: drop the last operation, drop any operation that no
// later operation depends on being there (indices are kept valid by only dropping from the end
// or dropping operations that create nothing).
func contShrink(input string) []string {
	f := hx.Fields(input)
	if len(f) <= 5 {
		return nil
	}
	var out []string
	out = append(out, strings.Join(f[:len(f)-1], " "))
	for i := 5; i < len(f); i++ {
		op := f[i]
		if strings.HasPrefix(op, "cl.") || strings.HasPrefix(op, "sub.") || strings.HasPrefix(op, "mkb.") {
			continue
		}
		g := append(append([]string{}, f[:i]...), f[i+1:]...)
		out = append(out, strings.Join(g, " "))
	}
	return out
}
