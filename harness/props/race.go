package props

// Unforced runs for the Go race detector (C12, C19: "no data race").
//
// The forced-schedule controllers serialise goroutines through their own locks, which gives the
// race detector happens-before edges that hide unsynchronised accesses inside one atomic block
// of the protocol model.  These modes therefore run plain workloads with NO controller installed
// (the hook dispatchers see a nil controller), in a harness binary built with `-race`; the check
// runs them with GORACE=halt_on_error=1, so a detected race ends the process with exit status 66
// after the report, and the last "workload" line names the workload in flight.  They also verify
// the functional result of every workload (exit status 1 with a message).

import (
	"flag"
	"fmt"
	"io"
	"math/rand"
	"os"
	"sort"
	"sync"
	"time"

	"github.com/biogo/biogo/concurrent"

	"verif/harness/hx"
)

func init() {
	hx.RegisterMode("race-C12", raceC12)
	hx.RegisterMode("race-C19", raceC19)
}

func raceFlags(name string, args []string) (seed int64, n int, budget time.Duration) {
	fs := flag.NewFlagSet(name, flag.ExitOnError)
	s := fs.Int64("seed", 1, "PRNG seed")
	k := fs.Int("n", 200, "number of workloads")
	b := fs.Duration("budget", 30*time.Second, "time budget")
	fs.Parse(args)
	return *s, *k, *b
}

// raceC12: concurrent-mode morass, several chunks handed to background writers, short, full or
// empty last chunk, one to three use cycles on the same sorter.
func raceC12(args []string) int {
	seed, n, budget := raceFlags("race-C12", args)
	rng := rand.New(rand.NewSource(seed))
	deadline := time.Now().Add(budget)
	done := 0
	for i := 0; i < n && time.Now().Before(deadline); i++ {
		c := []int{1, 2, 2, 3, 4, 7, 5, 6, 10}[rng.Intn(9)]
		cycles := 1 + rng.Intn(3)
		ty := "i"
		if rng.Intn(4) == 0 {
			ty = "s"
		}
		ac := rng.Intn(2) == 0
		fmt.Printf("workload %d: chunk=%d cycles=%d type=%s autoclear=%v\n", i, c, cycles, ty, ac)
		base, err := os.MkdirTemp("", "verif-race12-")
		if err != nil {
			fmt.Println("FAILED: ", err)
			return 2
		}
		m, err := morassNew(ty, base, c, true)
		if err != nil {
			fmt.Println("FAILED: ", err)
			return 2
		}
		m.AutoClear = ac
		for cy := 0; cy < cycles; cy++ {
			cnt := (1+rng.Intn(5))*c + []int{0, 1, c - 1, c}[rng.Intn(4)]
			if rng.Intn(8) == 0 {
				cnt = rng.Intn(c + 1)
			}
			var want []int
			for k := 0; k < cnt; k++ {
				v := rng.Intn(50)
				want = append(want, v)
				var perr error
				if ty == "s" {
					perr = m.Push(mStruct{A: v, B: k})
				} else {
					perr = m.Push(mInt(v))
				}
				if perr != nil {
					fmt.Printf("FAILED: Push returned %v\n", perr)
					return 1
				}
			}
			sort.Ints(want)
			if err := m.Finalise(); err != nil {
				fmt.Printf("FAILED: Finalise returned %v\n", err)
				return 1
			}
			var got []int
			for {
				var perr error
				var key int
				if ty == "s" {
					var v mStruct
					perr = m.Pull(&v)
					key = v.A
				} else {
					var v mInt
					perr = m.Pull(&v)
					key = int(v)
				}
				if perr == io.EOF {
					break
				}
				if perr != nil {
					fmt.Printf("FAILED: Pull returned %v\n", perr)
					return 1
				}
				got = append(got, key)
			}
			if fmt.Sprint(got) != fmt.Sprint(want) && !(len(got) == 0 && len(want) == 0) {
				fmt.Printf("FAILED: cycle %d pulled %v, want %v\n", cy, got, want)
				return 1
			}
			if err := m.Clear(); err != nil {
				fmt.Printf("FAILED: Clear returned %v\n", err)
				return 1
			}
		}
		m.CleanUp()
		os.RemoveAll(base)
		done++
	}
	fmt.Printf("race-C12: %d workloads completed, no race reported, all outputs sorted and complete\n", done)
	return 0
}

type raceOp struct {
	v   int
	err bool
}

func (o raceOp) Operation() (interface{}, error) {
	if o.err {
		return o.v, fmt.Errorf("op %d failed", o.v)
	}
	return o.v, nil
}

// raceSet is a Mapper over positions [lo,hi) of a shared slice.
type raceSet struct {
	vals   []int
	lo, hi int
}

func (s raceSet) Len() int { return s.hi - s.lo }
func (s raceSet) Slice(i, j int) concurrent.Mapper {
	return raceSet{vals: s.vals, lo: s.lo + i, hi: s.lo + j}
}
func (s raceSet) Operation() (interface{}, error) {
	t := 0
	for _, v := range s.vals[s.lo:s.hi] {
		t += v
	}
	return [3]int{s.lo, s.hi, t}, nil
}

// raceC19: the scenario families of the forced schedules, unforced: Processor (workers × buffer ×
// ops; several producers and collectors, with and without Stop), Map, and promises of every flag
// combination with concurrent Fulfill/Fail/Recover/Break/Wait callers.
func raceC19(args []string) int {
	seed, n, budget := raceFlags("race-C19", args)
	rng := rand.New(rand.NewSource(seed))
	deadline := time.Now().Add(budget)
	done := 0
	for i := 0; i < n && time.Now().Before(deadline); i++ {
		switch i % 6 {
		case 0:
			threads, buffer := 1+rng.Intn(6), rng.Intn(3)
			ops := []int{0, 1, threads - 1, threads, threads + 3, 20}[rng.Intn(6)]
			if ops < 0 {
				ops = 0
			}
			fmt.Printf("workload %d: processor threads=%d buffer=%d ops=%d\n", i, threads, buffer, ops)
			q := make(chan concurrent.Operator, rng.Intn(3))
			p := concurrent.NewProcessor(q, buffer, threads)
			seen := map[int]int{}
			var wg sync.WaitGroup
			wg.Add(1)
			go func() {
				defer wg.Done()
				for k := 0; k < ops; k++ {
					v, _ := p.Result()
					seen[v.(int)]++
				}
			}()
			for k := 0; k < ops; k++ {
				p.Process(raceOp{v: k, err: k%5 == 4})
			}
			wg.Wait()
			p.Close()
			p.Wait()
			for k := 0; k < ops; k++ {
				if seen[k] != 1 {
					fmt.Printf("FAILED: operation %d produced %d results\n", k, seen[k])
					return 1
				}
			}
		case 1:
			ln, threads, chunk := rng.Intn(40), 1+rng.Intn(5), 1+rng.Intn(9)
			fmt.Printf("workload %d: map len=%d threads=%d chunk=%d\n", i, ln, threads, chunk)
			set := raceSet{vals: make([]int, ln), hi: ln}
			for k := range set.vals {
				set.vals[k] = rng.Intn(9)
			}
			res, err := concurrent.Map(set, threads, chunk)
			if err != nil {
				fmt.Printf("FAILED: Map returned %v\n", err)
				return 1
			}
			cover := make([]int, ln)
			for _, r := range res {
				t := r.([3]int)
				for k := t[0]; k < t[1]; k++ {
					cover[k]++
				}
			}
			for k, c := range cover {
				if c != 1 {
					fmt.Printf("FAILED: Map covered position %d %d times\n", k, c)
					return 1
				}
			}
		case 2:
			fulfillers, waiters := 1+rng.Intn(3), 1+rng.Intn(3)
			// one of the fulfillers may fulfil with nil: a legal call, and the message
			// {nil, nil} counts as set
			nilAt := -1
			if rng.Intn(2) == 0 {
				nilAt = rng.Intn(fulfillers)
			}
			valueOf := func(k int) interface{} {
				if k == nilAt {
					return nil
				}
				return 100 + k
			}
			fmt.Printf("workload %d: promise fulfillers=%d waiters=%d nil-fulfiller=%d\n", i, fulfillers, waiters, nilAt)
			p := concurrent.NewPromise(false, false, false)
			var wg sync.WaitGroup
			oks := make([]bool, fulfillers)
			vals := make([]interface{}, waiters)
			for k := 0; k < waiters; k++ {
				wg.Add(1)
				go func(k int) { defer wg.Done(); vals[k] = (<-p.Wait()).Value }(k)
			}
			for k := 0; k < fulfillers; k++ {
				wg.Add(1)
				go func(k int) { defer wg.Done(); oks[k] = p.Fulfill(valueOf(k)) == nil }(k)
			}
			wg.Wait()
			won := -1
			for k, ok := range oks {
				if ok {
					if won >= 0 {
						fmt.Printf("FAILED: two Fulfill calls succeeded on an immutable promise\n")
						return 1
					}
					won = k
				}
			}
			for _, v := range vals {
				if won < 0 || v != valueOf(won) {
					fmt.Printf("FAILED: Wait returned %v, the successful Fulfill set %v\n", v, valueOf(won))
					return 1
				}
			}
		case 3:
			if msg := raceProcessorMany(rng, i); msg != "" {
				fmt.Println("FAILED: " + msg)
				return 1
			}
		case 4:
			if msg := racePromiseAll(rng, i); msg != "" {
				fmt.Println("FAILED: " + msg)
				return 1
			}
		case 5:
			if msg := racePromiseBreakWake(rng, i); msg != "" {
				fmt.Println("FAILED: " + msg)
				return 1
			}
		}
		done++
	}
	fmt.Printf("race-C19: %d workloads completed, no race reported, all results as required\n", done)
	return 0
}

// raceProcessorMany: several producers submit concurrently, several collectors receive
// concurrently, the queue is closed when the producers are done; sometimes Stop is called while
// operations are in flight.  Every result is the result of a submitted operation and no operation
// has two; without Stop every operation has exactly one; every collector sees the channel closed
// and Wait returns.
func raceProcessorMany(rng *rand.Rand, i int) string {
	threads, buffer := 1+rng.Intn(5), rng.Intn(3)
	np, nc := 1+rng.Intn(3), 1+rng.Intn(3)
	per := rng.Intn(8)
	stop := rng.Intn(5) == 0
	fmt.Printf("workload %d: processor threads=%d buffer=%d producers=%d collectors=%d ops/producer=%d stop=%v\n", i, threads, buffer, np, nc, per, stop)
	qcap := rng.Intn(3)
	if stop {
		// after Stop nobody may be left to drain the queue: give every submission room, so
		// that the producers cannot block for ever
		qcap = np*per + 1
	}
	q := make(chan concurrent.Operator, qcap)
	p := concurrent.NewProcessor(q, buffer, threads)
	var mu sync.Mutex
	seen := map[int]int{}
	var prod, coll sync.WaitGroup
	for ci := 0; ci < nc; ci++ {
		coll.Add(1)
		go func() {
			defer coll.Done()
			for {
				v, e := p.Result()
				if v == nil && e == nil {
					return
				}
				mu.Lock()
				seen[v.(int)]++
				mu.Unlock()
			}
		}()
	}
	for pi := 0; pi < np; pi++ {
		prod.Add(1)
		go func(pi int) {
			defer prod.Done()
			for k := 0; k < per; k++ {
				id := 1 + pi*100 + k
				p.Process(raceOp{v: id, err: k%4 == 3})
			}
		}(pi)
	}
	if stop {
		go p.Stop()
	}
	finished := make(chan struct{})
	go func() {
		prod.Wait()
		p.Close()
		p.Wait()
		coll.Wait()
		close(finished)
	}()
	select {
	case <-finished:
	case <-time.After(20 * time.Second):
		return "processor with several producers/collectors did not shut down after Close"
	}
	for pi := 0; pi < np; pi++ {
		for k := 0; k < per; k++ {
			id := 1 + pi*100 + k
			if seen[id] > 1 || (!stop && seen[id] != 1) {
				return fmt.Sprintf("operation %d produced %d results (stop=%v)", id, seen[id], stop)
			}
			delete(seen, id)
		}
	}
	if len(seen) != 0 {
		return fmt.Sprintf("results that no operation produced: %v", seen)
	}
	return ""
}

// racePromiseAll: a promise with random flags and a random set of concurrent callers of every
// kind.  Fulfill/Fail/Recover/Break always return; afterwards a final Fulfill makes sure the
// promise holds a Result (Break and Recover(nil) legitimately empty it), so every Wait must
// return; what a Wait delivers carries the value of one of the calls (or nil).  On an immutable
// promise with no resetting caller at most one Fulfill/Fail succeeds and all Waits deliver the
// same value.
func racePromiseAll(rng *rand.Rand, i int) string {
	mutable, recoverable, relay := rng.Intn(2) == 0, rng.Intn(2) == 0, rng.Intn(2) == 0
	n := 2 + rng.Intn(5)
	kinds := make([]byte, n)
	for k := range kinds {
		kinds[k] = "FFNXXRBWWW"[rng.Intn(10)] // N = Fulfill(nil)
	}
	fmt.Printf("workload %d: promise flags=%v/%v/%v calls=%s\n", i, mutable, recoverable, relay, kinds)
	p := concurrent.NewPromise(mutable, recoverable, relay)
	wins := make([]bool, n)
	got := make([]concurrent.Result, n)
	var setters, waiters sync.WaitGroup
	resets := false
	for k, kind := range kinds {
		k, kind := k, kind
		val := 100 + k
		switch kind {
		case 'W':
			waiters.Add(1)
			go func() { defer waiters.Done(); got[k] = <-p.Wait() }()
		case 'F':
			setters.Add(1)
			go func() { defer setters.Done(); wins[k] = p.Fulfill(val) == nil }()
		case 'N':
			setters.Add(1)
			go func() { defer setters.Done(); wins[k] = p.Fulfill(nil) == nil }()
		case 'X':
			setters.Add(1)
			go func() { defer setters.Done(); wins[k] = p.Fail(val, fmt.Errorf("failed %d", val)) }()
		case 'R':
			resets = resets || recoverable
			setters.Add(1)
			go func() {
				defer setters.Done()
				if ok := p.Recover(val); ok != recoverable {
					wins[k] = true // reported below
					got[k] = concurrent.Result{Value: "recover-flag"}
				}
			}()
		case 'B':
			resets = true
			setters.Add(1)
			go func() { defer setters.Done(); p.Break() }()
		}
	}
	finished := make(chan struct{})
	go func() {
		setters.Wait()
		p.Fulfill(999) // the promise now holds a Result whatever happened before
		waiters.Wait()
		close(finished)
	}()
	select {
	case <-finished:
	case <-time.After(20 * time.Second):
		return "a promise call did not return although the promise holds a Result"
	}
	nwins := 0
	var first interface{}
	haveFirst := false
	for k, kind := range kinds {
		switch kind {
		case 'R':
			if got[k].Value == "recover-flag" {
				return "Recover's result disagrees with the recoverable flag"
			}
		case 'F', 'N', 'X':
			if wins[k] {
				nwins++
			}
		case 'W':
			v := got[k].Value
			okv := v == nil || v == 999
			if vi, isInt := v.(int); isInt && vi >= 100 && vi < 100+n && kinds[vi-100] != 'W' && kinds[vi-100] != 'B' && kinds[vi-100] != 'N' {
				okv = true
			}
			if !okv {
				return fmt.Sprintf("Wait delivered value %v that no call supplied", v)
			}
			if !haveFirst {
				first, haveFirst = v, true
			} else if !mutable && !resets && v != first {
				return fmt.Sprintf("two Waits on an immutable promise delivered %v and %v", first, v)
			}
		}
	}
	if !mutable && !resets && nwins > 1 {
		return fmt.Sprintf("%d Fulfill/Fail calls succeeded on an immutable promise", nwins)
	}
	return ""
}

// racePromiseBreakWake: Waits parked on an unset promise, then Fulfill, then Break taking the
// mutex before the woken waiters do, then another Fulfill.  A woken Wait must re-check the
// mailbox after re-acquiring the mutex (the `for` around `p.set.Wait()`): otherwise it reads the
// emptied mailbox while holding the mutex and every later call on the promise deadlocks.  Every
// call must return; a Wait returns the value of a successful Fulfill.
func racePromiseBreakWake(rng *rand.Rand, i int) string {
	early := 1 + rng.Intn(3)
	recoverable := rng.Intn(2) == 0
	fmt.Printf("workload %d: promise break-after-wake early-waits=%d recoverable=%v\n", i, early, recoverable)
	p := concurrent.NewPromise(false, recoverable, false)
	got := make(chan interface{}, early)
	for k := 0; k < early; k++ {
		go func() { got <- (<-p.Wait()).Value }()
	}
	time.Sleep(2 * time.Millisecond) // let the waiters park
	done := make(chan string, 1)
	go func() {
		if err := p.Fulfill(1); err != nil {
			done <- "first Fulfill of an unset promise was refused"
			return
		}
		p.Break()
		time.Sleep(3 * time.Millisecond)
		if err := p.Fulfill(2); err != nil {
			done <- "Fulfill of a broken (unset) promise was refused"
			return
		}
		done <- ""
	}()
	select {
	case msg := <-done:
		if msg != "" {
			return msg
		}
	case <-time.After(5 * time.Second):
		return "Fulfill/Break/Fulfill after parked Waits did not return within 5s (deadlock)"
	}
	for k := 0; k < early; k++ {
		select {
		case v := <-got:
			if v != 1 && v != 2 {
				return fmt.Sprintf("a parked Wait returned %v, not the value of a successful Fulfill", v)
			}
		case <-time.After(5 * time.Second):
			return "a Wait parked before Fulfill never returned (deadlock)"
		}
	}
	return ""
}
