package props

// Unforced runs for the Go race detector (C12, C19: "no data race").
//
// The forced-schedule controllers serialise goroutines through their own locks, which gives the
// race detector happens-before edges that hide unsynchronised accesses inside one atomic block
// of the protocol model.  These modes therefore run plain workloads with NO controller installed
// (the hook dispatchers see a nil controller), in a harness binary built with `-race`; the check
// runs them with GORACE=halt_on_error=1, so a detected race ends the process with exit status 66
// after the report, and the last "workload" line names the workload in flight.  They also verify
// the functional result of every workload (exit status 1 with a message).

import (
	"flag"
	"fmt"
	"io"
	"math/rand"
	"os"
	"sort"
	"sync"
	"time"

	"github.com/biogo/biogo/concurrent"

	"verif/harness/hx"
)

func init() {
	hx.RegisterMode("race-C12", raceC12)
	hx.RegisterMode("race-C19", raceC19)
}

func raceFlags(name string, args []string) (seed int64, n int, budget time.Duration) {
	fs := flag.NewFlagSet(name, flag.ExitOnError)
	s := fs.Int64("seed", 1, "PRNG seed")
	k := fs.Int("n", 200, "number of workloads")
	b := fs.Duration("budget", 30*time.Second, "time budget")
	fs.Parse(args)
	return *s, *k, *b
}

// raceC12: concurrent-mode morass, several chunks handed to background writers, short, full or
// empty last chunk, one to three use cycles on the same sorter.
func raceC12(args []string) int {
	seed, n, budget := raceFlags("race-C12", args)
	rng := rand.New(rand.NewSource(seed))
	deadline := time.Now().Add(budget)
	done := 0
	for i := 0; i < n && time.Now().Before(deadline); i++ {
		c := []int{1, 2, 2, 3, 4, 7}[rng.Intn(6)]
		cycles := 1 + rng.Intn(3)
		ty := "i"
		if rng.Intn(4) == 0 {
			ty = "s"
		}
		ac := rng.Intn(2) == 0
		fmt.Printf("workload %d: chunk=%d cycles=%d type=%s autoclear=%v\n", i, c, cycles, ty, ac)
		base, err := os.MkdirTemp("", "verif-race12-")
		if err != nil {
			fmt.Println("FAILED: ", err)
			return 2
		}
		m, err := morassNew(ty, base, c, true)
		if err != nil {
			fmt.Println("FAILED: ", err)
			return 2
		}
		m.AutoClear = ac
		for cy := 0; cy < cycles; cy++ {
			cnt := (1+rng.Intn(5))*c + []int{0, 1, c - 1, c}[rng.Intn(4)]
			if rng.Intn(8) == 0 {
				cnt = rng.Intn(c + 1)
			}
			var want []int
			for k := 0; k < cnt; k++ {
				v := rng.Intn(50)
				want = append(want, v)
				var perr error
				if ty == "s" {
					perr = m.Push(mStruct{A: v, B: k})
				} else {
					perr = m.Push(mInt(v))
				}
				if perr != nil {
					fmt.Printf("FAILED: Push returned %v\n", perr)
					return 1
				}
			}
			sort.Ints(want)
			if err := m.Finalise(); err != nil {
				fmt.Printf("FAILED: Finalise returned %v\n", err)
				return 1
			}
			var got []int
			for {
				var perr error
				var key int
				if ty == "s" {
					var v mStruct
					perr = m.Pull(&v)
					key = v.A
				} else {
					var v mInt
					perr = m.Pull(&v)
					key = int(v)
				}
				if perr == io.EOF {
					break
				}
				if perr != nil {
					fmt.Printf("FAILED: Pull returned %v\n", perr)
					return 1
				}
				got = append(got, key)
			}
			if fmt.Sprint(got) != fmt.Sprint(want) && !(len(got) == 0 && len(want) == 0) {
				fmt.Printf("FAILED: cycle %d pulled %v, want %v\n", cy, got, want)
				return 1
			}
			if err := m.Clear(); err != nil {
				fmt.Printf("FAILED: Clear returned %v\n", err)
				return 1
			}
		}
		m.CleanUp()
		os.RemoveAll(base)
		done++
	}
	fmt.Printf("race-C12: %d workloads completed, no race reported, all outputs sorted and complete\n", done)
	return 0
}

type raceOp struct {
	v   int
	err bool
}

func (o raceOp) Operation() (interface{}, error) {
	if o.err {
		return o.v, fmt.Errorf("op %d failed", o.v)
	}
	return o.v, nil
}

// raceSet is a Mapper over positions [lo,hi) of a shared slice.
type raceSet struct {
	vals   []int
	lo, hi int
}

func (s raceSet) Len() int { return s.hi - s.lo }
func (s raceSet) Slice(i, j int) concurrent.Mapper {
	return raceSet{vals: s.vals, lo: s.lo + i, hi: s.lo + j}
}
func (s raceSet) Operation() (interface{}, error) {
	t := 0
	for _, v := range s.vals[s.lo:s.hi] {
		t += v
	}
	return [3]int{s.lo, s.hi, t}, nil
}

// raceC19: Processor (workers × buffer × ops), Map, and promises with concurrent
// Fulfill/Fail/Wait callers.
func raceC19(args []string) int {
	seed, n, budget := raceFlags("race-C19", args)
	rng := rand.New(rand.NewSource(seed))
	deadline := time.Now().Add(budget)
	done := 0
	for i := 0; i < n && time.Now().Before(deadline); i++ {
		switch i % 3 {
		case 0:
			threads, buffer := 1+rng.Intn(6), rng.Intn(3)
			ops := []int{0, 1, threads - 1, threads, threads + 3, 20}[rng.Intn(6)]
			if ops < 0 {
				ops = 0
			}
			fmt.Printf("workload %d: processor threads=%d buffer=%d ops=%d\n", i, threads, buffer, ops)
			q := make(chan concurrent.Operator, rng.Intn(3))
			p := concurrent.NewProcessor(q, buffer, threads)
			seen := map[int]int{}
			var wg sync.WaitGroup
			wg.Add(1)
			go func() {
				defer wg.Done()
				for k := 0; k < ops; k++ {
					v, _ := p.Result()
					seen[v.(int)]++
				}
			}()
			for k := 0; k < ops; k++ {
				p.Process(raceOp{v: k, err: k%5 == 4})
			}
			wg.Wait()
			p.Close()
			p.Wait()
			for k := 0; k < ops; k++ {
				if seen[k] != 1 {
					fmt.Printf("FAILED: operation %d produced %d results\n", k, seen[k])
					return 1
				}
			}
		case 1:
			ln, threads, chunk := rng.Intn(40), 1+rng.Intn(5), 1+rng.Intn(9)
			fmt.Printf("workload %d: map len=%d threads=%d chunk=%d\n", i, ln, threads, chunk)
			set := raceSet{vals: make([]int, ln), hi: ln}
			for k := range set.vals {
				set.vals[k] = rng.Intn(9)
			}
			res, err := concurrent.Map(set, threads, chunk)
			if err != nil {
				fmt.Printf("FAILED: Map returned %v\n", err)
				return 1
			}
			cover := make([]int, ln)
			for _, r := range res {
				t := r.([3]int)
				for k := t[0]; k < t[1]; k++ {
					cover[k]++
				}
			}
			for k, c := range cover {
				if c != 1 {
					fmt.Printf("FAILED: Map covered position %d %d times\n", k, c)
					return 1
				}
			}
		case 2:
			fulfillers, waiters := 1+rng.Intn(3), 1+rng.Intn(3)
			fmt.Printf("workload %d: promise fulfillers=%d waiters=%d\n", i, fulfillers, waiters)
			p := concurrent.NewPromise(false, false, false)
			var wg sync.WaitGroup
			oks := make([]bool, fulfillers)
			vals := make([]interface{}, waiters)
			for k := 0; k < waiters; k++ {
				wg.Add(1)
				go func(k int) { defer wg.Done(); vals[k] = (<-p.Wait()).Value }(k)
			}
			for k := 0; k < fulfillers; k++ {
				wg.Add(1)
				go func(k int) { defer wg.Done(); oks[k] = p.Fulfill(100+k) == nil }(k)
			}
			wg.Wait()
			won := -1
			for k, ok := range oks {
				if ok {
					if won >= 0 {
						fmt.Printf("FAILED: two Fulfill calls succeeded on an immutable promise\n")
						return 1
					}
					won = k
				}
			}
			for _, v := range vals {
				if won < 0 || v != 100+won {
					fmt.Printf("FAILED: Wait returned %v, the successful Fulfill set %d\n", v, 100+won)
					return 1
				}
			}
		}
		done++
	}
	fmt.Printf("race-C19: %d workloads completed, no race reported, all results as required\n", done)
	return 0
}
