package props

// C16 — piles are exactly the overlap-connected components of the added features.
//
// Input
//   pl <pairs> <filters>
//     pairs   = comma separated Add calls in order, each  id:locA:sA:eA:locB:sB:eB
//               (id names the *Pair object; the same id twice = the same object added twice;
//               feature ids are 2*id for A and 2*id+1 for B)
//     filters = '/' separated Piles calls in order, each  n  (nil filter) or a 0/1 string indexed
//               by pair id (1 = the filter accepts the pair)
//
// Observation
//   A=<0/1 per Add: 1 = no error>  then per Piles call
//   P=<piles>   ';' separated  loc:from:to:img.img...   sorted; images sorted ("-" = none)
//   F=<feats>   ';' separated  featureId:pileIndex:mateId:mateOK  for every feature object,
//               pileIndex = position in P of the *Pile returned by Location() (-1: not a pile of P),
//               mateId = id of Mate() (-1 unknown), mateOK = Mate().Mate()==f && same Pair
//   K=<ids>     '.' separated ids of the accepted pairs for which the filter of this call, asked
//               again AFTER Piles returned (every feature then sits in its final pile), says true
//               ("-" = none, "n" = nil filter)

import (
	"fmt"
	"sort"
	"strconv"
	"strings"

	"github.com/biogo/biogo/align/pals"

	"verif/harness/hx"
)

type c16Pair struct {
	id             int
	la, sa, ea     int
	lb, sb, eb     int
}

func c16ParsePairs(s string) []c16Pair {
	if s == "-" {
		return nil
	}
	var ps []c16Pair
	for _, f := range strings.Split(s, ",") {
		x := strings.Split(f, ":")
		if len(x) != 7 {
			panic("c16: bad pair " + f)
		}
		ps = append(ps, c16Pair{hx.Atoi(x[0]), hx.Atoi(x[1]), hx.Atoi(x[2]), hx.Atoi(x[3]), hx.Atoi(x[4]), hx.Atoi(x[5]), hx.Atoi(x[6])})
	}
	return ps
}

func c16FmtPairs(ps []c16Pair) string {
	if len(ps) == 0 {
		return "-"
	}
	ss := make([]string, len(ps))
	for i, p := range ps {
		ss[i] = fmt.Sprintf("%d:%d:%d:%d:%d:%d:%d", p.id, p.la, p.sa, p.ea, p.lb, p.sb, p.eb)
	}
	return strings.Join(ss, ",")
}

var c16Contigs = map[int]pals.Contig{}

func c16Contig(l int) pals.Contig {
	c, ok := c16Contigs[l]
	if !ok {
		c = pals.Contig("c" + strconv.Itoa(l))
		c16Contigs[l] = c
	}
	return c
}

// c16Filter builds the PairFilter named by one filter token ("n" gives nil).
func c16Filter(fs string) pals.PairFilter {
	if fs == "n" {
		return nil
	}
	switch fs[0] {
	case '0', '1':
		mask := fs
		return func(q *pals.Pair) bool { return q.Score < len(mask) && mask[q.Score] == '1' }
	case 'Q':
		return func(q *pals.Pair) bool { return q.A.Loc != q.B.Loc }
	}
	k := hx.Atoi(fs[1:])
	switch fs[0] {
	case 'L':
		return func(q *pals.Pair) bool { return q.A.Loc.Len() >= k && q.B.Loc.Len() >= k }
	case 'l':
		return func(q *pals.Pair) bool { return q.A.Loc.Len() >= k || q.B.Loc.Len() >= k }
	case 'S':
		return func(q *pals.Pair) bool { return q.A.Loc.Start() >= k && q.B.Loc.Start() >= k }
	case 'E':
		return func(q *pals.Pair) bool { return q.A.Loc.End() <= k || q.B.Loc.End() <= k }
	case 'C':
		return func(q *pals.Pair) bool {
			return q.A.Len()*100 >= q.A.Loc.Len()*k || q.B.Len()*100 >= q.B.Loc.Len()*k
		}
	}
	panic("c16: bad filter " + fs)
}

func c16Exec(input string) string {
	f := hx.Fields(input)
	if len(f) != 3 || f[0] != "pl" {
		panic("c16: bad input " + input)
	}
	pairs := c16ParsePairs(f[1])
	objs := map[int]*pals.Pair{}
	featID := map[*pals.Feature]int{}
	var order []int // pair ids in order of first appearance
	accepted := map[int]bool{}
	p := pals.NewPiler(0)
	var sb strings.Builder
	sb.WriteString("A=")
	for _, in := range pairs {
		fp, ok := objs[in.id]
		if !ok {
			fp = &pals.Pair{
				A:     &pals.Feature{ID: fmt.Sprintf("f%d", 2*in.id), Loc: c16Contig(in.la), From: in.sa, To: in.ea},
				B:     &pals.Feature{ID: fmt.Sprintf("f%d", 2*in.id+1), Loc: c16Contig(in.lb), From: in.sb, To: in.eb},
				Score: in.id,
			}
			fp.A.Pair = fp
			fp.B.Pair = fp
			objs[in.id] = fp
			featID[fp.A] = 2 * in.id
			featID[fp.B] = 2*in.id + 1
			order = append(order, in.id)
		}
		if err := p.Add(fp); err != nil {
			sb.WriteByte('0')
		} else {
			sb.WriteByte('1')
			accepted[in.id] = true
		}
	}
	if len(pairs) == 0 {
		sb.WriteByte('-')
	}
	locNum := func(l interface{}) int {
		c, ok := l.(pals.Contig)
		if !ok {
			return -1
		}
		return hx.Atoi(string(c)[1:])
	}
	for _, fs := range strings.Split(f[2], "/") {
		filter := c16Filter(fs)
		piles := p.Piles(filter)
		type row struct {
			loc, from, to int
			imgs          []int
			p             *pals.Pile
		}
		rows := make([]row, len(piles))
		for i, pl := range piles {
			r := row{loc: locNum(pl.Loc), from: pl.From, to: pl.To, p: pl}
			for _, im := range pl.Images {
				id, ok := featID[im]
				if !ok {
					id = -1
				}
				r.imgs = append(r.imgs, id)
			}
			sort.Ints(r.imgs)
			rows[i] = r
		}
		sort.SliceStable(rows, func(i, j int) bool {
			a, b := rows[i], rows[j]
			if a.loc != b.loc {
				return a.loc < b.loc
			}
			if a.from != b.from {
				return a.from < b.from
			}
			if a.to != b.to {
				return a.to < b.to
			}
			for k := 0; k < len(a.imgs) && k < len(b.imgs); k++ {
				if a.imgs[k] != b.imgs[k] {
					return a.imgs[k] < b.imgs[k]
				}
			}
			return len(a.imgs) < len(b.imgs)
		})
		sb.WriteString(" P=")
		if len(rows) == 0 {
			sb.WriteByte('-')
		}
		pileIdx := map[*pals.Pile]int{}
		for i, r := range rows {
			if i > 0 {
				sb.WriteByte(';')
			}
			if _, dup := pileIdx[r.p]; !dup {
				pileIdx[r.p] = i
			}
			is := "-"
			if len(r.imgs) > 0 {
				ss := make([]string, len(r.imgs))
				for k, v := range r.imgs {
					ss[k] = strconv.Itoa(v)
				}
				is = strings.Join(ss, ".")
			}
			fmt.Fprintf(&sb, "%d:%d:%d:%s", r.loc, r.from, r.to, is)
		}
		sb.WriteString(" F=")
		if len(order) == 0 {
			sb.WriteByte('-')
		}
		for i, id := range order {
			fp := objs[id]
			for k, ft := range []*pals.Feature{fp.A, fp.B} {
				if i > 0 || k > 0 {
					sb.WriteByte(';')
				}
				pi := -1
				if pl, ok := ft.Location().(*pals.Pile); ok {
					if ix, ok := pileIdx[pl]; ok {
						pi = ix
					}
				}
				mate := ft.Mate()
				mid, mok := -1, false
				if mate != nil {
					if v, ok := featID[mate]; ok {
						mid = v
					}
					mok = mate.Mate() == ft && mate.Pair == ft.Pair
				}
				fmt.Fprintf(&sb, "%d:%d:%d:%s", 2*id+k, pi, mid, hx.B(mok))
			}
		}
		// the filter asked again now that the call has returned
		sb.WriteString(" K=")
		if filter == nil {
			sb.WriteByte('n')
		} else {
			var ids []int
			for _, id := range order {
				if accepted[id] && filter(objs[id]) {
					ids = append(ids, id)
				}
			}
			sort.Ints(ids)
			sb.WriteString(dots(ids))
		}
	}
	return sb.String()
}

// ---- generator ----

type c16Iv struct{ l, s, e int }

func c16RandIv(g *hx.Gen, nloc, line int) c16Iv {
	l := g.Intn(nloc)
	s := g.Intn(line)
	var e int
	switch g.Intn(8) {
	case 0:
		e = s // empty interval
	case 1, 2:
		e = s + 1
	default:
		e = s + 1 + g.Intn(line-s)
	}
	return c16Iv{l, s, e}
}

// a related interval: nested in, abutting, chained with, or equal to iv
func c16Related(g *hx.Gen, iv c16Iv, line int) c16Iv {
	switch g.Intn(7) {
	case 0: // abut on the right
		return c16Iv{iv.l, iv.e, iv.e + 1 + g.Intn(3)}
	case 1: // abut on the left
		w := 1 + g.Intn(3)
		return c16Iv{iv.l, iv.s - w, iv.s}
	case 2: // nested
		if iv.e-iv.s >= 2 {
			s := iv.s + g.Intn(iv.e-iv.s-1)
			e := s + 1 + g.Intn(iv.e-s)
			if e > iv.e {
				e = iv.e
			}
			return c16Iv{iv.l, s, e}
		}
		return iv
	case 3: // chained: overlaps the right end
		return c16Iv{iv.l, iv.e - 1, iv.e + 1 + g.Intn(3)}
	case 4: // one short of abutting (gap of one)
		return c16Iv{iv.l, iv.e + 1, iv.e + 2 + g.Intn(3)}
	case 5: // duplicate
		return iv
	default: // enclosing
		return c16Iv{iv.l, iv.s - g.Intn(3), iv.e + g.Intn(3)}
	}
}

// a filter that inspects the piles of the pair's images; thresholds are taken near the lengths
// and end points of the features so that both answers occur
func c16PileFilter(g *hx.Gen, ps []c16Pair) string {
	var ref c16Pair
	if len(ps) > 0 {
		ref = ps[g.Intn(len(ps))]
	}
	d := g.Pick(-1, 0, 0, 1, 1, 2, 3, 7)
	switch g.Intn(10) {
	case 0, 1:
		return fmt.Sprintf("L%d", g.Pick(ref.ea-ref.sa, ref.eb-ref.sb, 1, 2)+d)
	case 2:
		return fmt.Sprintf("l%d", g.Pick(ref.ea-ref.sa, ref.eb-ref.sb, 1, 2)+d)
	case 3:
		return fmt.Sprintf("S%d", g.Pick(ref.sa, ref.sb, 1)+d-1)
	case 4:
		return fmt.Sprintf("E%d", g.Pick(ref.ea, ref.eb)+d)
	case 5:
		return "Q"
	default: // the coverage filter of the repository's TestPiler (epsilon 0.95)
		return fmt.Sprintf("C%d", g.Pick(95, 95, 100, 50, 80, 34, 101))
	}
}

func c16Filters(g *hx.Gen, ps []c16Pair) string {
	npairs := c16MaxID(ps) + 1
	if g.Chance(0.5) {
		pf := func() string { return c16PileFilter(g, ps) }
		switch g.Intn(6) {
		case 0, 1: // on the first call, when the features are located for the first time
			return pf()
		case 2:
			return pf() + "/n/" + pf()
		case 3:
			return pf() + "/" + pf()
		case 4: // on a later call only
			return "n/" + pf()
		default:
			return c16MaskFilters(g, npairs) + "/" + pf()
		}
	}
	return c16MaskFilters(g, npairs)
}

func c16MaskFilters(g *hx.Gen, npairs int) string {
	mask := func() string {
		b := make([]byte, npairs)
		p := g.Float64()
		for i := range b {
			if g.Float64() < p {
				b[i] = '1'
			} else {
				b[i] = '0'
			}
		}
		if npairs == 0 {
			return "0"
		}
		return string(b)
	}
	switch g.Intn(6) {
	case 0:
		return "n"
	case 1:
		return mask()
	case 2:
		return "n/" + mask()
	case 3:
		return mask() + "/n"
	case 4:
		return mask() + "/" + mask() + "/n"
	default:
		return "n/n/" + mask()
	}
}

func c16Multiset(g *hx.Gen, n, nloc, line int) []c16Pair {
	var ivs []c16Iv
	pick := func() c16Iv {
		if len(ivs) > 0 && g.Chance(0.55) {
			iv := c16Related(g, ivs[g.Intn(len(ivs))], line)
			ivs = append(ivs, iv)
			return iv
		}
		iv := c16RandIv(g, nloc, line)
		ivs = append(ivs, iv)
		return iv
	}
	var ps []c16Pair
	for i := 0; i < n; i++ {
		a, b := pick(), pick()
		if g.Chance(0.05) {
			b = a // self pair
		}
		ps = append(ps, c16Pair{i, a.l, a.s, a.e, b.l, b.s, b.e})
	}
	// duplicates: a new object with the same coordinates in either orientation, or the same object again
	for k := g.Pick(0, 0, 0, 1, 1, 2); k > 0 && len(ps) > 0; k-- {
		src := ps[g.Intn(len(ps))]
		d := src
		switch g.Intn(3) {
		case 0: // same object added again
		case 1:
			d.id = len(ps)
		default:
			d = c16Pair{len(ps), src.lb, src.sb, src.eb, src.la, src.sa, src.ea}
		}
		ps = append(ps, d)
	}
	// renumber fresh ids densely (same-object duplicates keep their id)
	return ps
}

func c16Permutations(n int, f func([]int) bool) {
	perm := make([]int, n)
	for i := range perm {
		perm[i] = i
	}
	var rec func(k int) bool
	rec = func(k int) bool {
		if k == n {
			return f(perm)
		}
		for i := k; i < n; i++ {
			perm[k], perm[i] = perm[i], perm[k]
			if !rec(k + 1) {
				return false
			}
			perm[k], perm[i] = perm[i], perm[k]
		}
		return true
	}
	rec(0)
}

func c16Emit(g *hx.Gen, ps []c16Pair, perm []int, filters string) {
	q := make([]c16Pair, len(ps))
	for i, j := range perm {
		q[i] = ps[j]
	}
	g.Casef("pl %s %s", c16FmtPairs(q), filters)
}

func c16MaxID(ps []c16Pair) int {
	m := -1
	for _, p := range ps {
		if p.id > m {
			m = p.id
		}
	}
	return m
}

func c16Gen(g *hx.Gen) {
	// 1. bounded exhaustive: every multiset of two pairs over a short line on one location, both orders
	line := g.Scale(3, 4)
	var all []c16Iv
	for s := 0; s <= line; s++ {
		for e := s; e <= line; e++ {
			all = append(all, c16Iv{0, s, e})
		}
	}
	// every such history also with a pile-inspecting filter on the first Piles call
	pfs := []string{"L2", "C100", "Q", "S1", "E2", "l3", "L1", "C51"}
	npf := 0
	for _, a := range all {
		for _, b := range all {
			for _, c := range all {
				for _, d := range all {
					if g.Done() {
						return
					}
					ps := []c16Pair{{0, 0, a.s, a.e, 0, b.s, b.e}, {1, 0, c.s, c.e, 0, d.s, d.e}}
					g.Casef("pl %s n", c16FmtPairs(ps))
					g.Casef("pl %s %s", c16FmtPairs(ps), pfs[npf%len(pfs)])
					npf++
					// the reverse order is the same multiset with (a,b) and (c,d) swapped: enumerated too
				}
			}
		}
	}
	// 2. all permutations of small multisets
	rounds := g.Scale(120, 3000)
	for r := 0; r < rounds && !g.Done(); r++ {
		n := g.Pick(2, 3, 3, 4, 4)
		if r%10 == 0 {
			n = g.Scale(5, 6)
		}
		ps := c16Multiset(g, n, g.Pick(1, 1, 2, 3), g.Pick(6, 12, 12, 30))
		filters := c16Filters(g, ps)
		c16Permutations(len(ps), func(perm []int) bool {
			c16Emit(g, ps, perm, filters)
			return !g.Done()
		})
	}
	// 3. larger multisets in random orders
	rounds = g.Scale(400, 20000)
	for r := 0; r < rounds && !g.Done(); r++ {
		n := g.Pick(7, 10, 15, 25, 40, 80)
		ps := c16Multiset(g, n, g.Pick(1, 2, 3), g.Pick(12, 30, 100, 1000))
		if g.Chance(0.1) { // negative coordinates
			off := g.Intn(50)
			for i := range ps {
				ps[i].sa -= off
				ps[i].ea -= off
				ps[i].sb -= off
				ps[i].eb -= off
			}
		}
		for k := 0; k < 3; k++ {
			c16Emit(g, ps, g.Perm(len(ps)), c16Filters(g, ps))
		}
	}
}

func c16Shrink(input string) []string {
	f := hx.Fields(input)
	if len(f) != 3 {
		return nil
	}
	ps := c16ParsePairs(f[1])
	var out []string
	for i := range ps {
		q := append(append([]c16Pair{}, ps[:i]...), ps[i+1:]...)
		out = append(out, fmt.Sprintf("pl %s %s", c16FmtPairs(q), f[2]))
	}
	fl := strings.Split(f[2], "/")
	for i := range fl {
		if len(fl) > 1 {
			q := append(append([]string{}, fl[:i]...), fl[i+1:]...)
			out = append(out, fmt.Sprintf("pl %s %s", f[1], strings.Join(q, "/")))
		}
	}
	return out
}

func init() {
	hx.Register(&hx.Prop{ID: "C16", Gen: c16Gen, Exec: c16Exec, Shrink: c16Shrink})
}
