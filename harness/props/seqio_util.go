package props

// Shared helpers of the FASTA/FASTQ harness parts (C01, C03 part "seq", C04 part "seq").
//
// A record travels as four tokens: <name> <desc> <letters> <quals>, each hex ("-" = empty).
// A call of Reader.Read is observed as one token:
//
//	R:<name>:<desc>:<letters>:<quals>   non-nil sequence, nil error
//	X:<kind>:<name>:...                 non-nil sequence and non-nil error
//	E:<kind>                            nil sequence, non-nil error other than io.EOF
//	EOF                                 nil sequence, io.EOF
//	N                                   nil sequence and nil error
//
// and a call history is the space separated list of calls up to and including the first EOF
// ("CAP" is appended when the call budget ran out first).

import (
	"bytes"
	"fmt"
	"hash/fnv"
	"io"
	"strings"
	"testing/iotest"

	"github.com/biogo/biogo/alphabet"
	"github.com/biogo/biogo/io/seqio"
	"github.com/biogo/biogo/io/seqio/fasta"
	"github.com/biogo/biogo/io/seqio/fastq"
	"github.com/biogo/biogo/seq"
	"github.com/biogo/biogo/seq/linear"

	"verif/harness/hx"
)

type sioRec struct {
	name, desc     string
	letters, quals []byte
}

func sioRecTokens(rs []sioRec) string {
	var sb strings.Builder
	for _, r := range rs {
		fmt.Fprintf(&sb, " %s %s %s %s", hx.Hex([]byte(r.name)), hx.Hex([]byte(r.desc)), hx.Hex(r.letters), hx.Hex(r.quals))
	}
	return sb.String()
}

func sioParseRecs(tok []string) []sioRec {
	if len(tok)%4 != 0 {
		panic("seqio: record tokens not a multiple of four")
	}
	var rs []sioRec
	for i := 0; i+3 < len(tok); i += 4 {
		rs = append(rs, sioRec{string(hx.Unhex(tok[i])), string(hx.Unhex(tok[i+1])), hx.Unhex(tok[i+2]), hx.Unhex(tok[i+3])})
	}
	return rs
}

// the encodings by their numeric value in package alphabet (None = -1 … Illumina1_9 = 5)
func sioEnc(tok string) alphabet.Encoding { return alphabet.Encoding(hx.Atoi(tok)) }

// sioSeq builds a sequence of the repository's own types. typ "s" = *linear.Seq,
// "q" = *linear.QSeq with the given encoding.
func sioSeq(typ string, r sioRec, alpha alphabet.Alphabet, enc alphabet.Encoding) seq.Sequence {
	if typ == "s" {
		s := linear.NewSeq(r.name, alphabet.BytesToLetters(r.letters), alpha)
		s.Desc = r.desc
		return s
	}
	ql := make([]alphabet.QLetter, len(r.letters))
	for i := range ql {
		ql[i].L = alphabet.Letter(r.letters[i])
		if i < len(r.quals) {
			ql[i].Q = alphabet.Qphred(r.quals[i])
		}
	}
	s := linear.NewQSeq(r.name, ql, alpha, enc)
	s.Desc = r.desc
	return s
}

// sioTemplate is the empty sequence handed to the readers.
func sioTemplate(typ string, alpha alphabet.Alphabet, enc alphabet.Encoding) seqio.SequenceAppender {
	if typ == "s" {
		return linear.NewSeq("", nil, alpha)
	}
	return linear.NewQSeq("", nil, alpha, enc)
}

func sioFnv(b []byte) string {
	h := fnv.New64a()
	h.Write(b)
	return fmt.Sprintf("%016x", h.Sum64())
}

// sioSource wraps the file in one of several io.Reader behaviours (chosen from the
// content, so that a replay is exact): all at once, one byte per Read, half of the
// request, data together with io.EOF, and chunks of 4096 bytes.
func sioSource(data []byte) io.Reader {
	h := fnv.New32a()
	h.Write(data)
	r := bytes.NewReader(data)
	switch h.Sum32() % 5 {
	case 1:
		return iotest.OneByteReader(r)
	case 2:
		return iotest.HalfReader(r)
	case 3:
		return iotest.DataErrReader(r)
	case 4:
		return &sioChunkReader{r: r, n: 4096}
	}
	return r
}

type sioChunkReader struct {
	r io.Reader
	n int
}

func (c *sioChunkReader) Read(p []byte) (int, error) {
	if len(p) > c.n {
		p = p[:c.n]
	}
	return c.r.Read(p)
}

func sioSeqFields(s seq.Sequence, withQ bool) string {
	switch v := s.(type) {
	case *linear.Seq:
		return fmt.Sprintf("%s:%s:%s:-", hx.Hex([]byte(v.ID)), hx.Hex([]byte(v.Desc)), hx.Hex(alphabet.LettersToBytes(v.Seq)))
	case *linear.QSeq:
		ls := make([]byte, len(v.Seq))
		qs := make([]byte, len(v.Seq))
		for i, ql := range v.Seq {
			ls[i] = byte(ql.L)
			qs[i] = byte(ql.Q)
		}
		if !withQ {
			qs = nil
		}
		return fmt.Sprintf("%s:%s:%s:%s", hx.Hex([]byte(v.ID)), hx.Hex([]byte(v.Desc)), hx.Hex(ls), hx.Hex(qs))
	}
	return fmt.Sprintf("unknown-type-%T", s)
}

func sioErrKind(err error) string {
	if err == io.EOF {
		return "EOF"
	}
	s := err.Error()
	switch {
	case strings.HasPrefix(s, "fasta: badly formed line"):
		return "bad"
	case s == "fastq: no header line parsed before +line in fastq format":
		return "nohdr"
	case s == "fastq: quality header does not match sequence header":
		return "qhdr"
	case s == "fastq: sequence/quality length mismatch":
		return "len"
	}
	return "other-" + hx.Hex([]byte(s))
}

// sioCalls calls rd.Read until io.EOF or until maxCalls calls were made.  Every returned
// sequence is KEPT and the history is rendered only after the last call: a record a caller
// holds on to must not change under a later Read (a reader that hands out its own buffer
// shows as an earlier record rewritten by a later, shorter one).
func sioCalls(rd seqio.Reader, withQ bool, maxCalls int) string {
	type call struct {
		s   seq.Sequence
		err error
	}
	var kept []call
	capped := true
	for i := 0; i < maxCalls; i++ {
		s, err := rd.Read()
		kept = append(kept, call{s, err})
		if s == nil && err == io.EOF {
			capped = false
			break
		}
	}
	var out []string
	for _, c := range kept {
		s, err := c.s, c.err
		switch {
		case s == nil && err == nil:
			out = append(out, "N")
		case s == nil && err == io.EOF:
			out = append(out, "EOF")
		case s == nil:
			out = append(out, "E:"+sioErrKind(err))
		case err == nil:
			out = append(out, "R:"+sioSeqFields(s, withQ))
		default:
			out = append(out, "X:"+sioErrKind(err)+":"+sioSeqFields(s, withQ))
		}
	}
	if capped {
		out = append(out, "CAP")
	}
	return strings.Join(out, " ")
}

func sioLineCount(data []byte) int {
	n := bytes.Count(data, []byte{'\n'})
	if len(data) > 0 && data[len(data)-1] != '\n' {
		n++
	}
	return n
}

// sioReadFasta / sioReadFastq: the whole call history of a fresh reader over data.
// The budget is a few calls more than the property allows, so that an overrun is visible.
func sioReadFasta(data []byte, typ string, alpha alphabet.Alphabet) string {
	rd := fasta.NewReader(sioSource(data), sioTemplate(typ, alpha, alphabet.Sanger))
	return sioCalls(rd, false, sioLineCount(data)+4)
}

// sioReadFastaPfx: the same with the exported prefix fields of the reader set by the user.
func sioReadFastaPfx(data []byte, typ string, alpha alphabet.Alphabet, idPrefix, seqPrefix []byte) string {
	rd := fasta.NewReader(sioSource(data), sioTemplate(typ, alpha, alphabet.Sanger))
	rd.IDPrefix, rd.SeqPrefix = idPrefix, seqPrefix
	return sioCalls(rd, false, sioLineCount(data)+4)
}

// prefixes a user may set: the defaults, the ones gff.Writer sets for inline sequences, and
// ones that contain blanks, repeat each other or are empty
var sioPrefixPairs = [][2]string{{">", ""}, {"##DNA ", "##"}, {"##Protein ", "##"}, {"##RNA ", "##"}, {">>", ">"}, {"", ""}, {"@", "+"},
	{";", " "}, {"id:", "seq:"}, {"> ", ""}, {">\t", "\t"}, {"#", "#"}, {"##", "##"}, {"x y", "z"}, {">", ">"}, {"ab", "a"}, {"a", "ab"}}

func sioReadFastq(data []byte, typ string, alpha alphabet.Alphabet, enc alphabet.Encoding) string {
	rd := fastq.NewReader(sioSource(data), sioTemplate(typ, alpha, enc))
	return sioCalls(rd, true, sioLineCount(data)+4)
}

// ---- generators shared by the three properties ----

var sioAlphabets = []string{"DNA", "DNAgapped", "DNAredundant", "RNA", "RNAgapped", "RNAredundant", "Protein"}

// letters of a built-in alphabet in both cases (the built-in alphabets are case insensitive)
func sioLetterPool(name string) string {
	ls := builtinByName(name).Letters()
	return ls + strings.ToUpper(ls)
}

const sioNameSpecial = ">@+"

func sioName(g *hx.Gen) string {
	n := g.Pick(0, 1, 1, 2, 3, 5, 8, 8, 13, 20)
	if g.Chance(0.02) {
		n = g.Pick(4090, 4095, 4096, 4097, 5000, 9000)
	}
	b := make([]byte, n)
	for i := range b {
		if g.Chance(0.25) {
			b[i] = sioNameSpecial[g.Intn(len(sioNameSpecial))]
		} else {
			b[i] = byte(33 + g.Intn(94))
		}
	}
	return string(b)
}

// a trimmed single-line description over printable ASCII (inner blanks, double blanks, and
// sometimes inner tabs)
func sioDesc(g *hx.Gen) string {
	if g.Chance(0.3) {
		return ""
	}
	n := g.Pick(1, 1, 2, 3, 5, 9, 17, 40)
	if g.Chance(0.02) {
		n = g.Pick(4090, 4096, 4100, 8200)
	}
	b := make([]byte, n)
	for i := range b {
		switch {
		case g.Chance(0.2):
			b[i] = ' '
		case g.Chance(0.03):
			b[i] = '\t'
		case g.Chance(0.2):
			b[i] = sioNameSpecial[g.Intn(len(sioNameSpecial))]
		default:
			b[i] = byte(33 + g.Intn(94))
		}
	}
	for _, i := range []int{0, n - 1} {
		if b[i] == ' ' || b[i] == '\t' {
			b[i] = byte(33 + g.Intn(94))
		}
	}
	return string(b)
}

// sequence lengths aimed at the wrap width and at the 4096-byte line buffer of bufio
func sioLen(g *hx.Gen, width int) int {
	switch g.Intn(12) {
	case 0:
		return 0
	case 1:
		return 1
	case 2:
		return g.Pick(width-1, width, width+1, 2*width-1, 2*width, 2*width+1, 3*width)
	case 3:
		if g.Chance(0.25) {
			return g.Pick(4095, 4096, 4097, 8191, 8192, 8193, 20000)
		}
		return g.Range(0, 200)
	default:
		return g.Range(0, 90)
	}
}

func sioWidth(g *hx.Gen) int {
	switch g.Intn(8) {
	case 0:
		return g.Pick(1, 2, 3)
	case 1:
		return g.Pick(4095, 4096, 4097, 8192, 20000, 19999)
	case 2:
		return g.Range(1, 20000)
	case 3:
		return g.Pick(50, 60, 70, 80)
	default:
		return g.Range(1, 100)
	}
}

// the printable Q range of an encoding (what the property quantifies over)
func sioQRange(enc alphabet.Encoding) (lo, hi int) {
	switch enc {
	case alphabet.Sanger, alphabet.Illumina1_8, alphabet.Illumina1_9:
		return 0, 93
	case alphabet.Illumina1_3:
		return 0, 62
	case alphabet.Illumina1_5:
		return 2, 62
	}
	return 0, 40
}

func sioQuals(g *hx.Gen, enc alphabet.Encoding, n int) []byte {
	lo, hi := sioQRange(enc)
	q := make([]byte, n)
	mode := g.Intn(6)
	for i := range q {
		switch mode {
		case 0: // both ends of the range
			q[i] = byte(g.Pick(lo, hi))
		case 1: // typical reads
			q[i] = byte(g.Range(lo, 41))
		default:
			q[i] = byte(g.Range(lo, hi))
		}
	}
	if n > 0 && g.Chance(0.35) {
		// quality strings that start with '@' or '+' (and a few that consist of them)
		var off int
		switch enc {
		case alphabet.Illumina1_3, alphabet.Illumina1_5:
			off = 64
		default:
			off = 33
		}
		for _, c := range []byte{'@', '+'} {
			v := int(c) - off
			if v >= lo && v <= hi && g.Chance(0.6) {
				q[0] = byte(v)
				if g.Chance(0.2) {
					for i := range q {
						q[i] = byte(v)
					}
				}
			}
		}
	}
	return q
}

// sioRecords draws a list of well-formed records for the given sequence type.
func sioRecords(g *hx.Gen, alpha string, width int, withQ bool, enc alphabet.Encoding, maxRecs int) []sioRec {
	pool := sioLetterPool(alpha)
	n := g.Pick(0, 1, 1, 1, 2, 2, 3, 5)
	if n > maxRecs {
		n = maxRecs
	}
	rs := make([]sioRec, n)
	for i := range rs {
		l := sioLen(g, width)
		rs[i] = sioRec{name: sioName(g), desc: sioDesc(g), letters: g.Letters(pool, l)}
		if withQ {
			rs[i].quals = sioQuals(g, enc, l)
		}
	}
	return rs
}

// sioRecordsDecreasing draws well-formed records whose sequence lengths strictly decrease:
// a long one, then strictly shorter non-empty ones, then an empty one (and sometimes one more
// short record after it).  A reader that re-uses the storage of a record it already returned
// overwrites the earlier record only when a later one fits into it, i.e. in this order.
func sioRecordsDecreasing(g *hx.Gen, alpha string, width int, withQ bool, enc alphabet.Encoding, maxRecs int) []sioRec {
	pool := sioLetterPool(alpha)
	first := g.Pick(3, 8, 40, 90, width, width+1, 2*width+1, g.Range(3, 200))
	if g.Chance(0.03) {
		first = g.Pick(4096, 4097, 8193)
	}
	if first < 3 {
		first = 3
	}
	if first > 20000 {
		first = 20000
	}
	lens := []int{first}
	if g.Chance(0.2) { // two records of the same length in front
		lens = append(lens, first)
	}
	for l := first; len(lens) < maxRecs-1 && l > 1; {
		if g.Chance(0.5) {
			l = g.Range(1, l-1)
		} else {
			l = l - g.Pick(1, 1, 2)
			if l < 1 {
				l = 1
			}
		}
		lens = append(lens, l)
		if g.Chance(0.25) {
			break
		}
	}
	lens = append(lens, 0)
	if len(lens) < maxRecs && g.Chance(0.4) {
		lens = append(lens, g.Range(1, first))
	}
	rs := make([]sioRec, len(lens))
	for i, l := range lens {
		rs[i] = sioRec{name: sioName(g), desc: sioDesc(g), letters: g.Letters(pool, l)}
		if withQ {
			rs[i].quals = sioQuals(g, enc, l)
		}
	}
	return rs
}

// sioWriteFasta / sioWriteFastq render records with the repository's writers.
func sioWriteFasta(rs []sioRec, typ, alpha string, width int) []byte {
	var buf bytes.Buffer
	w := fasta.NewWriter(&buf, width)
	for _, r := range rs {
		w.Write(sioSeq(typ, r, builtinByName(alpha), alphabet.Sanger))
	}
	return buf.Bytes()
}

func sioWriteFastq(rs []sioRec, typ, alpha string, enc alphabet.Encoding, qid bool) []byte {
	var buf bytes.Buffer
	w := fastq.NewWriter(&buf)
	w.QID = qid
	for _, r := range rs {
		w.Write(sioSeq(typ, r, builtinByName(alpha), enc))
	}
	return buf.Bytes()
}

var sioPhredEncodings = []alphabet.Encoding{alphabet.Sanger, alphabet.Illumina1_3, alphabet.Illumina1_5, alphabet.Illumina1_8, alphabet.Illumina1_9}

// sioPickS returns one of the strings.
func sioPickS(g *hx.Gen, xs ...string) string { return xs[g.Intn(len(xs))] }
