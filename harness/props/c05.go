package props

// C05 — RevComp / Reverse / Clone algebra on all sequence types.
// Inputs and observations: see cont_common.go (tag "h5").
// Histories of ≤ 8 operations from {RevComp, Reverse, Clone, Set, row RevComp, row Reverse}
// over all built-in complementing alphabets, lengths 0…40, ragged and flush row layouts with
// non-zero alignment start.

import (
	"fmt"
	"strings"

	"verif/harness/hx"
)

type c05Shape struct {
	kind string
	rows []seqSpec
}

func c05Rows(g *hx.Gen, alpha string, kind string) []seqSpec {
	pool := pairedLetters(alpha)
	letters := func(n int) []byte {
		ls := make([]byte, n)
		for i := range ls {
			ls[i] = pool[g.Intn(len(pool))]
		}
		// occasionally a letter outside the pairing (outside the property's quantifier:
		// compared with the model only)
		if n > 0 && g.Chance(0.03) {
			ls[g.Intn(n)] = byte(g.Pick('z', 'u', 't', 'U', '*', 0, 200))
		}
		return ls
	}
	switch kind {
	case "lin", "qlin":
		n := genLen(g, 40)
		return []seqSpec{{q: kind == "qlin", off: g.Pick(0, 0, 1, -3, 7, 100), strand: g.Pick(-1, 0, 1, 1), name: 0, ls: letters(n), qs: genQuals(g, n)}}
	case "aln", "qaln":
		nr := g.Range(1, 6)
		n := genLen(g, 40)
		rows := make([]seqSpec, nr)
		for i := range rows {
			rows[i] = seqSpec{q: kind == "qaln", strand: g.Pick(-1, 0, 1, 1), name: i, ls: letters(n), qs: genQuals(g, n)}
		}
		return rows
	default: // multi, set
		nr := g.Range(1, 6)
		base := g.Pick(0, 0, 3, -4, 11, 250)
		rows := make([]seqSpec, nr)
		layout := g.Intn(4) // 0 flush both, 1 left flush, 2 right flush, 3 ragged
		span := genLen(g, 40)
		mixq := g.Intn(3)
		for i := range rows {
			var off, n int
			switch layout {
			case 0:
				off, n = base, span
			case 1:
				off, n = base, genLen(g, 40)
			case 2:
				n = g.Intn(span + 1)
				off = base + span - n
			default:
				off, n = base+g.Intn(12), genLen(g, 30)
			}
			q := mixq == 1 || (mixq == 2 && g.Chance(0.5))
			rows[i] = seqSpec{q: q, off: off, strand: g.Pick(-1, 0, 1, 1), name: i, ls: letters(n), qs: genQuals(g, n)}
		}
		return rows
	}
}

// c05Ops draws a history; spans tracks, per object, each row's [start,end) so that Set
// positions are in range.
func c05Ops(g *hx.Gen, alpha string, kind string, rows []seqSpec) []string {
	pool := pairedLetters(alpha)
	type span struct{ s, e int }
	spansOf := func() []span {
		var sp []span
		switch kind {
		case "aln", "qaln":
			n := 0
			if len(rows) > 0 {
				n = len(rows[0].ls)
			}
			for range rows {
				sp = append(sp, span{0, n})
			}
		default:
			for _, r := range rows {
				sp = append(sp, span{r.off, r.off + len(r.ls)})
			}
		}
		return sp
	}
	objs := [][]span{spansOf()}
	mirror := func(sp []span) {
		if kind != "multi" {
			return
		}
		S, E := 1<<62, -(1 << 62)
		for _, r := range sp {
			if r.s < S {
				S = r.s
			}
			if r.e > E {
				E = r.e
			}
		}
		for i, r := range sp {
			sp[i] = span{S + E - r.e, S + E - r.s}
		}
	}
	nops := g.Range(1, 8)
	var ops []string
	for len(ops) < nops {
		k := g.Intn(len(objs))
		sp := objs[k]
		switch g.Intn(10) {
		case 0, 1:
			ops = append(ops, fmt.Sprintf("rc.%d", k))
			mirror(sp)
			if g.Chance(0.5) && len(ops) < nops {
				ops = append(ops, fmt.Sprintf("rc.%d", k))
				mirror(sp)
			}
		case 2, 3:
			ops = append(ops, fmt.Sprintf("rv.%d", k))
			mirror(sp)
			if g.Chance(0.6) && len(ops) < nops {
				ops = append(ops, fmt.Sprintf("rv.%d", k))
				mirror(sp)
			}
		case 4, 5:
			if kind == "set" || len(objs) >= 4 {
				continue
			}
			ops = append(ops, fmt.Sprintf("cl.%d", k))
			objs = append(objs, append([]span(nil), sp...))
		case 6, 7:
			r := g.Intn(len(sp))
			if sp[r].e <= sp[r].s {
				continue
			}
			pos := sp[r].s + g.Intn(sp[r].e-sp[r].s)
			if g.Chance(0.3) {
				pos = g.Pick(sp[r].s, sp[r].e-1, (sp[r].s+sp[r].e-1)/2)
			}
			ops = append(ops, fmt.Sprintf("st.%d.%d.%d.%d.%d", k, r, pos, pool[g.Intn(len(pool))], g.Intn(60)))
		default:
			if kind == "lin" || kind == "qlin" || ((kind == "aln" || kind == "qaln") && sp[0].e == sp[0].s) {
				continue
			}
			r := g.Intn(len(sp))
			name := "rrc"
			if g.Chance(0.3) {
				name = "rrv"
			}
			ops = append(ops, fmt.Sprintf("%s.%d.%d", name, k, r))
			if g.Chance(0.4) && len(ops) < nops {
				ops = append(ops, fmt.Sprintf("%s.%d.%d", name, k, r))
			}
		}
	}
	return ops
}

func c05Gen(g *hx.Gen) {
	kinds := []string{"lin", "qlin", "aln", "qaln", "multi", "multi", "set"}
	// bounded-exhaustive part: every sequence over {a,c,g,t,n,-} up to a length, RevComp twice
	// and Reverse twice (odd and even lengths, the middle element, gaps)
	maxLen := g.Scale(3, 6)
	small := []byte("acgtn-")
	var rec func(prefix []byte)
	rec = func(prefix []byte) {
		if g.Done() {
			return
		}
		kind := "lin"
		if len(prefix)%2 == 1 {
			kind = "qlin"
		}
		qs := make([]byte, len(prefix))
		for i := range qs {
			qs[i] = byte(10 + i)
		}
		sp := seqSpec{q: kind == "qlin", off: 2, strand: 1, ls: prefix, qs: qs}
		g.Casef("h5 DNAgapped %s 1 %s rc.0 rc.0 rv.0 rv.0", kind, sp.String())
		if len(prefix) < maxLen {
			for _, c := range small {
				rec(append(append([]byte(nil), prefix...), c))
			}
		}
	}
	rec(nil)
	n := g.Scale(5000, 300000)
	for i := 0; i < n && !g.Done(); i++ {
		alpha := contAlphabets[g.Intn(len(contAlphabets))]
		kind := kinds[g.Intn(len(kinds))]
		rows := c05Rows(g, alpha, kind)
		ops := c05Ops(g, alpha, kind, rows)
		g.Casef("h5 %s %s %d %s %s", alpha, kind, g.Pick(-1, 0, 1, 1), joinSpecs(rows), strings.Join(ops, " "))
	}
}

func init() {
	hx.Register(&hx.Prop{ID: "C05", Gen: c05Gen, Exec: contExec, Shrink: contShrink})
}
