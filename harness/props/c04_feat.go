package props

// C04 (part feat) — BED and GFF inputs yield the same features with CRLF or LF terminators and
// whether or not the last line ends in a newline.
//
// Inputs
//   bedl <N> <hex of an LF-terminated file>
//   gffl <hex of an LF-terminated file>
//
// Observation: the calls of the reader on the file as given, with CRLF terminators, without the
// final terminator, and with CRLF and no final terminator:  <lf> | <crlf> | <lf-nofinal> | <crlf-nofinal> | <oracles>

import (
	"bytes"

	"verif/harness/hx"
)

func init() {
	hx.Register(&hx.Prop{ID: "C04", Part: "feat", Ops: []string{"bedl", "gffl"}, Gen: c04FeatGen, Exec: c04FeatExec, Shrink: fioShrink})
}

func fioLayouts(data []byte) [][]byte {
	cr := bytes.ReplaceAll(data, []byte{'\n'}, []byte{'\r', '\n'})
	nf := bytes.TrimSuffix(data, []byte{'\n'})
	crnf := bytes.TrimSuffix(cr, []byte{'\r', '\n'})
	return [][]byte{data, cr, nf, crnf}
}

func c04FeatExec(input string) string {
	f := hx.Fields(input)
	switch f[0] {
	case "bedl":
		n := hx.Atoi(f[1])
		out := ""
		for i, d := range fioLayouts(hx.Unhex(f[2])) {
			if i > 0 {
				out += " | "
			}
			out += fioReadBed(d, n)
		}
		return out
	case "gffl":
		data := hx.Unhex(f[1])
		out := ""
		for i, d := range fioLayouts(data) {
			if i > 0 {
				out += " | "
			}
			out += fioReadGff(d)
		}
		return out + " | " + fioOracles(data)
	}
	panic("c04 feat: bad input " + input)
}

func c04FeatGen(g *hx.Gen) {
	// the witnesses of the design
	g.Casef("bedl 3 %s", hx.Hex([]byte("chr1\t1\t10\nchr2\t5\t20\n")))
	g.Casef("gffl %s", hx.Hex([]byte("##DNA x\n##acgt\n##end-DNA\n")))
	// physical lines on the boundaries of bufio's buffer (each read in the four layouts)
	for _, bf := range fioBoundaryFiles(g, g.Scale(1, 8)) {
		if bf.bed {
			g.Casef("bedl 4 %s", hx.Hex(bf.data))
		} else {
			g.Casef("gffl %s", hx.Hex(bf.data))
		}
	}
	n := g.Scale(3000, 60000)
	for k := 0; k < n && !g.Done(); k++ {
		if g.Chance(0.4) {
			w := fioWidths[g.Intn(5)]
			g.Casef("bedl %d %s", w, hx.Hex(fioBedFile(g, w, g.Pick(1, 1, 2, 3, 6))))
		} else {
			g.Casef("gffl %s", hx.Hex(fioGffFile(g, g.Pick(1, 1, 2, 3, 6, 10), true)))
		}
	}
}
