package props

// C08 (part lin) — the linear-gap aligners NW, SW and Fitted return optimal alignments.
// The executor is shared with C09 (part lin).
//
// Input (both properties)
//   <op> <alpha> <matrix> <ref> <qry> <mode>
//     op      nw | sw | fit
//     alpha   <hex letters>:<cased 0/1>:<gap byte>     (alphabet definition; the built-in
//             objects alphabet.DNAgapped / Protein / DNAredundant / DNA are used when the
//             definition is theirs, otherwise alphabet.NewAlphabet)
//     matrix  rows separated by ';', entries by ',', an empty row is 'e', no rows '-'
//     ref,qry hex letters ('-' = empty)
//     mode    LL  both alphabet.Letters; the executor also aligns the same letters as
//                 alphabet.QLetters and renders both with align.Format
//             LQ / QL  mismatched slice types; A2 the query has a different alphabet object
//             (same definition); NA the reference has no alphabet
//
// Observation
//   LL:     <resL> <resQ> <fmtL> <fmtQ>      resQ/fmtQ are '=' when equal to resL/fmtL
//   others: <res>
//   res  = ok:<a0>:<a1>/<b0>:<b1>=<score>,...  |  err:<kind>  |  panic:<hex>
//   fmt  = <hex row0>/<hex row1>  |  x (not rendered)  |  panic:<hex>

import (
	"fmt"
	"strconv"
	"strings"
	"sync"

	"github.com/biogo/biogo/align"
	"github.com/biogo/biogo/alphabet"
	"github.com/biogo/biogo/feat"
	"github.com/biogo/biogo/seq"
	"github.com/biogo/biogo/seq/linear"

	"verif/harness/hx"
)

var alinOps = []string{"nw", "sw", "fit"}

var (
	alinAlphaMu    sync.Mutex
	alinAlphaCache = map[string]alphabet.Alphabet{}
)

// alinAlpha returns the alphabet object for a definition token; fresh=true never returns a
// cached or built-in object (used for the "different alphabet object" mode).
func alinAlpha(tok string, fresh bool) alphabet.Alphabet {
	parts := strings.Split(tok, ":")
	if len(parts) != 3 {
		panic("alin: bad alphabet token " + tok)
	}
	letters := string(hx.Unhex(parts[0]))
	cased := parts[1] == "1"
	gap := alphabet.Letter(hx.Atoi(parts[2]))
	if !fresh {
		if !cased && gap == '-' {
			for _, b := range []alphabet.Alphabet{alphabet.DNAgapped, alphabet.Protein, alphabet.DNAredundant, alphabet.DNA, alphabet.RNAgapped} {
				if b.Letters()[:b.Len()] == letters {
					return b
				}
			}
		}
		alinAlphaMu.Lock()
		defer alinAlphaMu.Unlock()
		if a, ok := alinAlphaCache[tok]; ok {
			return a
		}
	}
	a, err := alphabet.NewAlphabet(letters, feat.Undefined, gap, 'n', cased)
	if err != nil {
		panic("alin: alphabet definition rejected: " + err.Error())
	}
	if !fresh {
		alinAlphaCache[tok] = a
	}
	return a
}

func alinMatrix(tok string) [][]int {
	if tok == "-" {
		return nil
	}
	var m [][]int
	for _, row := range strings.Split(tok, ";") {
		if row == "e" {
			m = append(m, []int{})
			continue
		}
		var r []int
		for _, f := range strings.Split(row, ",") {
			r = append(r, hx.Atoi(f))
		}
		m = append(m, r)
	}
	return m
}

func alinMatrixTok(m [][]int) string {
	if len(m) == 0 {
		return "-"
	}
	rows := make([]string, len(m))
	for i, r := range m {
		if len(r) == 0 {
			rows[i] = "e"
			continue
		}
		ss := make([]string, len(r))
		for j, v := range r {
			ss[j] = strconv.Itoa(v)
		}
		rows[i] = strings.Join(ss, ",")
	}
	return strings.Join(rows, ";")
}

func alinErrKind(err error) string {
	switch err {
	case align.ErrMismatchedTypes:
		return "err:types"
	case align.ErrMismatchedAlphabets:
		return "err:alphabets"
	case align.ErrNoAlphabet:
		return "err:noalphabet"
	case align.ErrNotGappedAlphabet:
		return "err:notgapped"
	case align.ErrTypeNotHandled:
		return "err:typenothandled"
	case align.ErrMatrixNotSquare:
		return "err:notsquare"
	}
	if e, ok := err.(align.ErrMatrixWrongSize); ok {
		return fmt.Sprintf("err:wrongsize:%d:%d", e.Size, e.Len)
	}
	s := err.Error()
	if strings.HasPrefix(s, "align: illegal letter ") {
		// align: illegal letter %q at position %d in rSeq
		i := strings.LastIndex(s, " at position ")
		if i >= 0 {
			var pos int
			var which string
			if n, _ := fmt.Sscanf(s[i:], " at position %d in %s", &pos, &which); n == 2 {
				switch which {
				case "rSeq":
					return fmt.Sprintf("err:illegal:r:%d", pos)
				case "qSeq":
					return fmt.Sprintf("err:illegal:q:%d", pos)
				}
			}
		}
	}
	return "err:other:" + hx.Hex([]byte(s))
}

func alinPairs(ps []feat.Pair) string {
	if len(ps) == 0 {
		return "ok:-"
	}
	ss := make([]string, len(ps))
	for i, p := range ps {
		f := p.Features()
		sc := 0
		if s, ok := p.(interface{ Score() int }); ok {
			sc = s.Score()
		} else {
			return "err:other:" + hx.Hex([]byte("pair without Score"))
		}
		ss[i] = fmt.Sprintf("%d:%d/%d:%d=%d", f[0].Start(), f[0].End(), f[1].Start(), f[1].End(), sc)
	}
	return "ok:" + strings.Join(ss, ",")
}

func alinAligner(op string, m [][]int) align.Aligner {
	switch op {
	case "nw":
		return align.NW(m)
	case "sw":
		return align.SW(m)
	case "fit":
		return align.Fitted(m)
	}
	panic("alin: unknown op " + op)
}

// alinRun calls Align, capturing a panic of the aligner itself.
func alinRun(al align.Aligner, r, q align.AlphabetSlicer) (res string, pairs []feat.Pair) {
	defer func() {
		if e := recover(); e != nil {
			res, pairs = "panic:"+hx.Hex([]byte(fmt.Sprint(e))), nil
		}
	}()
	ps, err := al.Align(r, q)
	if err != nil {
		return alinErrKind(err), nil
	}
	return alinPairs(ps), ps
}

func alinLetters(sl alphabet.Slice) []byte {
	switch s := sl.(type) {
	case alphabet.Letters:
		return alphabet.LettersToBytes(s)
	case alphabet.QLetters:
		b := make([]byte, len(s))
		for i, ql := range s {
			b[i] = byte(ql.L)
		}
		return b
	}
	return nil
}

func alinFormat(r, q seq.Slicer, ps []feat.Pair, gap alphabet.Letter) (out string) {
	if ps == nil {
		return "x"
	}
	defer func() {
		if e := recover(); e != nil {
			out = "panic:" + hx.Hex([]byte(fmt.Sprint(e)))
		}
	}()
	rows := align.Format(r, q, ps, gap)
	return hx.Hex(alinLetters(rows[0])) + "/" + hx.Hex(alinLetters(rows[1]))
}

func alinQ(b []byte) []alphabet.QLetter {
	ql := make([]alphabet.QLetter, len(b))
	for i, l := range b {
		ql[i] = alphabet.QLetter{L: alphabet.Letter(l), Q: alphabet.Qphred((i*7 + 3) % 41)}
	}
	return ql
}

// alinWarmSeq makes a sequence object hold, in place, what the warm-up call is to see
// (c08_history.go: the case's letters, their first half, or all of the stretched backing
// array) and returns the function that restores the case's slice.
func alinWarmSeq(s align.AlphabetSlicer, seqs int) (restore func()) {
	switch s := s.(type) {
	case *linear.Seq:
		own := s.Seq
		s.Seq = own[:alnWarmLen(seqs, len(own), cap(own))]
		return func() { s.Seq = own }
	case *linear.QSeq:
		own := s.Seq
		s.Seq = own[:alnWarmLen(seqs, len(own), cap(own))]
		return func() { s.Seq = own }
	}
	return func() {}
}

func alinExec(input string) string {
	f := hx.Fields(input)
	if len(f) != 6 {
		panic("alin: bad input " + input)
	}
	op, atok, mode := f[0], f[1], f[5]
	want := alinMatrix(f[2])
	rb, qb := hx.Unhex(f[3]), hx.Unhex(f[4])
	alpha := alinAlpha(atok, false)
	// every sequence object holds the first len(b) letters of a longer backing array
	// (alnStretched): the case's letters; only a warm-up call ever sees the rest
	lseq := func(b []byte, a alphabet.Alphabet) *linear.Seq {
		s := linear.NewSeq("s", nil, a)
		s.Seq = alphabet.Letters(alphabet.BytesToLetters(alnStretched(b)))[:len(b)]
		return s
	}
	qseq := func(b []byte, a alphabet.Alphabet) *linear.QSeq {
		s := linear.NewQSeq("s", nil, a, alphabet.Sanger)
		s.Seq = alphabet.QLetters(alinQ(alnStretched(b)))[:len(b)]
		return s
	}
	// the sequence objects of the case: r, q for the first (only) call, r2, q2 for the
	// QLetters call of mode LL
	var r, q, r2, q2 align.AlphabetSlicer
	switch mode {
	case "LL":
		r, q, r2, q2 = lseq(rb, alpha), lseq(qb, alpha), qseq(rb, alpha), qseq(qb, alpha)
	case "LQ":
		r, q = lseq(rb, alpha), qseq(qb, alpha)
	case "QL":
		r, q = qseq(rb, alpha), lseq(qb, alpha)
	case "A2":
		r, q = lseq(rb, alpha), lseq(qb, alinAlpha(atok, true))
	case "NA":
		r, q = lseq(rb, nil), lseq(qb, alpha)
	default:
		panic("alin: bad mode " + mode)
	}
	// Usage history (c08_history.go): half of the cases first make a warm-up call with the same
	// matrix object holding other numbers, the same aligner value and the same sequence
	// objects, then overwrite the matrix in place with the case's; the property is per call,
	// so the observation must not depend on it.
	var al align.Aligner
	if hist := alnHistoryOf(input); hist.warm {
		obj := newAlnMatrixObject(want, hist.shape)
		al = alinAligner(op, obj.warmup())
		wr, wq := r, q
		if hist.useQ && r2 != nil {
			wr, wq = r2, q2
		}
		rr, rq := alinWarmSeq(wr, hist.seqs), alinWarmSeq(wq, hist.seqs)
		alnQuiet(func() { al.Align(wr, wq) })
		rr()
		rq()
		m := obj.settle()
		if hist.shape != 0 || len(want) == 0 {
			// another number of rows: the aligner value IS the slice header, so it is re-made
			// around the same backing arrays; for shape 0 the same aligner value is re-used
			al = alinAligner(op, m)
		}
	} else {
		al = alinAligner(op, want)
	}
	if mode != "LL" {
		res, _ := alinRun(al, r, q)
		return res
	}
	resL, psL := alinRun(al, r, q)
	resQ, psQ := alinRun(al, r2, q2)
	fmtL := alinFormat(r.(seq.Slicer), q.(seq.Slicer), psL, alpha.Gap())
	fmtQ := alinFormat(r2.(seq.Slicer), q2.(seq.Slicer), psQ, alpha.Gap())
	if resQ == resL {
		resQ = "="
	}
	if fmtQ == fmtL {
		fmtQ = "="
	}
	return resL + " " + resQ + " " + fmtL + " " + fmtQ
}

// ---- generators ---------------------------------------------------------------------

func alinAlphaTok(letters string, cased bool, gap byte) string {
	return fmt.Sprintf("%s:%s:%d", hx.Hex([]byte(letters)), hx.B(cased), gap)
}

const (
	alinDNA     = "-acgt"
	alinProtein = "-abcdefghijklmnpqrstvwxyz*"
)

// alinFamily is the fixed matrix family for an alphabet of n letters (index 0 = gap):
// symmetric, asymmetric, ties everywhere, zero gaps, extreme mismatches, per-letter gap
// scores that differ between the two sequences, all negative, mismatches that score.
func alinFamily(n int) [][][]int {
	mk := func(f func(i, j int) int) [][]int {
		m := make([][]int, n)
		for i := range m {
			m[i] = make([]int, n)
			for j := range m[i] {
				m[i][j] = f(i, j)
			}
		}
		return m
	}
	simple := func(match, mis, gapv int) [][]int {
		return mk(func(i, j int) int {
			switch {
			case i == 0 && j == 0:
				return 0
			case i == 0 || j == 0:
				return gapv
			case i == j:
				return match
			}
			return mis
		})
	}
	return [][][]int{
		simple(2, -1, -1),   // symmetric
		simple(1, 0, 0),     // ties: zero gaps and zero mismatches
		simple(0, 0, 0),     // ties everywhere
		simple(2, -1, 0),    // zero gaps
		simple(1, -100, -1), // extreme mismatches
		simple(-1, -2, -3),  // all negative
		simple(1, 1, -1),    // mismatches score like matches
		simple(5, -4, -5),
		mk(func(i, j int) int { // asymmetric, per-letter gaps differing by side
			switch {
			case i == 0 && j == 0:
				return 0
			case j == 0:
				return -(i % 3) // gap in the query against reference letter i
			case i == 0:
				return -2 * (j % 2) // gap in the reference against query letter j
			case i == j:
				return 3 - i
			}
			return (i*2+j)%4 - 2
		}),
		mk(func(i, j int) int { // asymmetric substitution scores, one-sided free gaps
			switch {
			case i == 0 && j == 0:
				return 0
			case j == 0:
				return -2
			case i == 0:
				return 0
			}
			return (i*3+j*5)%7 - 3
		}),
	}
}

func alinRandMatrix(g *hx.Gen, n int) [][]int {
	m := make([][]int, n)
	span := g.Pick(1, 2, 3, 10, 100)
	gapMax := g.Pick(0, 0, 0, 1) // mostly within the hypothesis (gap scores <= 0)
	sym := g.Chance(0.4)
	for i := range m {
		m[i] = make([]int, n)
	}
	for i := 0; i < n; i++ {
		for j := 0; j < n; j++ {
			switch {
			case i == 0 || j == 0:
				m[i][j] = -g.Intn(span+1) + gapMax*g.Intn(2)
			case i == j:
				m[i][j] = g.Intn(span+1) - g.Intn(2)
			default:
				m[i][j] = g.Intn(2*span+1) - span - g.Intn(span+1)
			}
			if sym && j < i {
				m[i][j] = m[j][i]
			}
		}
	}
	return m
}

// alinOversize embeds the n x n matrix m in the upper-left corner of a square matrix with k
// more rows and columns.  The API accepts such a matrix (only len(a) < alpha.Len() is an
// error) and the aligners must score letters i, j with entry [i][j] of it, i.e. read the
// flattened matrix with the row stride len(a), not alpha.Len(); the extra rows and columns
// are never addressed by a letter of the alphabet.  fill selects what stands there:
// 0 large positive distinct values, 1 large negative distinct values, 2 zeros, 3 values
// that look like the scores of further ordinary letters.
func alinOversize(m [][]int, k, fill int) [][]int {
	n := len(m)
	out := make([][]int, n+k)
	for i := range out {
		out[i] = make([]int, n+k)
		for j := range out[i] {
			switch {
			case i < n && j < n:
				out[i][j] = m[i][j]
			case fill == 0:
				out[i][j] = 1000 + 37*i + j
			case fill == 1:
				out[i][j] = -1000 - 37*i - j
			case fill == 2:
				out[i][j] = 0
			case i == j:
				out[i][j] = 2 + i%3
			case i == 0 || j == 0:
				out[i][j] = -1 - (i+j)%2
			default:
				out[i][j] = (i*3+j*5)%7 - 3
			}
		}
	}
	return out
}

// alinOverSizes are the numbers of extra rows/columns of the bounded-exhaustive oversized
// family: alphabet size +1, +2 and a larger one.
var alinOverSizes = []int{1, 2, 5}

// alinRandOversize makes a random square matrix larger than the alphabet out of m (whose
// size is the alphabet's): a matrix of the same family for a larger alphabet (fam >= 0), a
// random larger matrix, or m embedded with one of the fills of alinOversize.
func alinRandOversize(g *hx.Gen, m [][]int, fam int) [][]int {
	n := len(m)
	k := g.Pick(1, 1, 2, 2, 3, 5, 8, 22)
	if n > 10 && k > 8 {
		k = 8
	}
	switch g.Intn(3) {
	case 0:
		if fam >= 0 {
			return alinFamily(n + k)[fam] // its upper-left n x n block is alinFamily(n)[fam]
		}
		big := alinRandMatrix(g, n+k)
		for i := 0; i < n; i++ {
			copy(big[i][:n], m[i])
		}
		return big
	}
	return alinOversize(m, k, g.Intn(4))
}

// alinSeqs enumerates all sequences over letters of length lo..hi.
func alinSeqs(letters string, lo, hi int) []string {
	var out []string
	var rec func(prefix string, n int)
	rec = func(prefix string, n int) {
		if n == 0 {
			out = append(out, prefix)
			return
		}
		for i := 0; i < len(letters); i++ {
			rec(prefix+letters[i:i+1], n-1)
		}
	}
	for n := lo; n <= hi; n++ {
		rec("", n)
	}
	return out
}

func alinMutate(g *hx.Gen, s []byte, letters string) []byte {
	var out []byte
	for _, b := range s {
		switch x := g.Intn(20); {
		case x == 0: // deletion
		case x == 1: // insertion
			out = append(out, letters[g.Intn(len(letters))], b)
		case x == 2: // substitution
			out = append(out, letters[g.Intn(len(letters))])
		default:
			out = append(out, b)
		}
	}
	return out
}

// alinRandomCase emits one random pair over DNA or protein for a random aligner.
func alinRandomCase(g *hx.Gen, maxLen int) string {
	op := alinOps[g.Intn(3)]
	def := alinDNA
	if g.Chance(0.35) {
		def = alinProtein
	}
	n := len(def)
	var m [][]int
	famIdx := -1
	if g.Chance(0.5) {
		fam := alinFamily(n)
		famIdx = g.Intn(len(fam))
		m = fam[famIdx]
	} else {
		m = alinRandMatrix(g, n)
	}
	if g.Chance(0.3) { // a square matrix larger than the alphabet
		m = alinRandOversize(g, m, famIdx)
	}
	letters := def[1:]
	if g.Chance(0.1) {
		letters = def // the gap letter itself occurs in the sequences
	}
	ln := func() int {
		switch g.Intn(4) {
		case 0:
			return g.Range(1, 6)
		case 1:
			return g.Range(1, 30)
		}
		return g.Range(1, maxLen)
	}
	r := g.Letters(letters, ln())
	var q []byte
	switch g.Intn(4) {
	case 0: // unrelated
		q = g.Letters(letters, ln())
	case 1: // a mutated copy
		q = alinMutate(g, r, letters)
	default: // a mutated piece (the fitted / local situation)
		a := g.Intn(len(r))
		b := g.Range(a+1, len(r))
		q = alinMutate(g, r[a:b], letters)
		if g.Chance(0.3) {
			q = append(g.Letters(letters, g.Range(1, 5)), q...)
		}
	}
	if len(q) == 0 {
		q = g.Letters(letters, 1)
	}
	if g.Chance(0.2) { // upper case: the built-in alphabets are case-insensitive
		r = []byte(strings.ToUpper(string(r)))
	}
	return fmt.Sprintf("%s %s %s %s %s LL", op, alinAlphaTok(def, false, '-'), alinMatrixTok(m), hx.Hex(r), hx.Hex(q))
}

// alinExhaustive emits every pair of sequences of length 1..maxLen over the non-gap letters
// of def, for every matrix of the family and the three aligners.
func alinExhaustive(g *hx.Gen, def string, maxLen int, stride int) {
	seqs := alinSeqs(def[1:], 1, maxLen)
	atok := alinAlphaTok(def, true, def[0])
	k := 0
	for mi, m := range alinFamily(len(def)) {
		mt := alinMatrixTok(m)
		for _, r := range seqs {
			for _, q := range seqs {
				for oi, op := range alinOps {
					k++
					if stride > 1 && (k+mi+oi)%stride != 0 {
						continue
					}
					if g.Done() {
						return
					}
					g.Casef("%s %s %s %s %s LL", op, atok, mt, hx.Hex([]byte(r)), hx.Hex([]byte(q)))
				}
			}
		}
	}
}

// alinExhaustiveOversized is alinExhaustive with every matrix of the family embedded in a
// square matrix with 1, 2 and 5 more rows and columns than the alphabet has letters (the fill
// of the extra part rotates through the four kinds of alinOversize).
func alinExhaustiveOversized(g *hx.Gen, def string, maxLen int, stride int) {
	seqs := alinSeqs(def[1:], 1, maxLen)
	atok := alinAlphaTok(def, true, def[0])
	k := 0
	for mi, m := range alinFamily(len(def)) {
		for ki, extra := range alinOverSizes {
			mt := alinMatrixTok(alinOversize(m, extra, (mi+ki)%4))
			for _, r := range seqs {
				for _, q := range seqs {
					for oi, op := range alinOps {
						k++
						if stride > 1 && (k+mi+oi)%stride != 0 {
							continue
						}
						if g.Done() {
							return
						}
						g.Casef("%s %s %s %s %s LL", op, atok, mt, hx.Hex([]byte(r)), hx.Hex([]byte(q)))
					}
				}
			}
		}
	}
}

// alinTinyRandom emits one random-matrix case on tiny sequences over a 2- or 3-letter
// alphabet; three in ten matrices are larger than the alphabet.
func alinTinyRandom(g *hx.Gen) {
	def := []string{"-ab", "-abc"}[g.Intn(2)]
	m := alinRandMatrix(g, len(def))
	if g.Chance(0.3) {
		m = alinRandOversize(g, m, -1)
	}
	r := g.Letters(def[1:], g.Range(1, 6))
	q := g.Letters(def[1:], g.Range(1, 6))
	g.Casef("%s %s %s %s %s LL", alinOps[g.Intn(3)], alinAlphaTok(def, true, '-'), alinMatrixTok(m), hx.Hex(r), hx.Hex(q))
}

func c08linGen(g *hx.Gen) {
	// bounded-exhaustive part: matrices of the alphabet's size, then oversized ones
	alinExhaustive(g, "-ab", g.Scale(4, 5), 1)
	alinExhaustiveOversized(g, "-ab", g.Scale(3, 4), 1)
	alinExhaustive(g, "-abc", g.Scale(3, 4), 1)
	alinExhaustiveOversized(g, "-abc", g.Scale(2, 3), 1)
	// random matrices on tiny sequences: score coincidences
	n := g.Scale(5000, 40000)
	for k := 0; k < n && !g.Done(); k++ {
		alinTinyRandom(g)
	}
	// random pairs over DNA and protein up to length 200
	n = g.Scale(5000, 100000)
	for k := 0; k < n && !g.Done(); k++ {
		g.Case(alinRandomCase(g, g.Scale(120, 200)))
	}
}

func alinShrink(input string) []string {
	f := hx.Fields(input)
	if len(f) != 6 {
		return nil
	}
	var out []string
	for _, k := range []int{3, 4} {
		b := hx.Unhex(f[k])
		for i := range b {
			nb := append(append([]byte{}, b[:i]...), b[i+1:]...)
			g := append([]string{}, f...)
			g[k] = hx.Hex(nb)
			out = append(out, strings.Join(g, " "))
		}
	}
	return out
}

func init() {
	hx.Register(&hx.Prop{ID: "C08", Part: "lin", Ops: alinOps, Gen: c08linGen, Exec: alinExec, Shrink: alinShrink})
}
