package props

// Regenerated structural facts about morass.go that the concurrent model (Model/MorassConc.lean)
// relies on *below* hook granularity: the model's "push.send" block does
// `writable <- chunk; wg := wg+1; spawn writer` atomically in the caller, and the writer's last
// block decrements wg.  A rewrite that keeps every hook in place but moves `writers.Add(1)` into
// the spawned goroutine, drops the deferred `Done`, or takes the `files` append out of its lock
// cannot be exhibited by any forced schedule, so it is tied here by go/ast facts; the theorem
// `Biogo.Properties.C12_source.model_matches_source_structure` decides them on every run.

import (
	"fmt"
	"go/ast"
	"go/parser"
	"go/printer"
	"go/token"
	"path/filepath"
	"strings"

	"verif/harness/hx"
)

func morassFacts(repo string) (string, error) {
	fset := token.NewFileSet()
	file, err := parser.ParseFile(fset, filepath.Join(repo, "morass", "morass.go"), nil, 0)
	if err != nil {
		return "", err
	}
	src := func(n ast.Node) string {
		var sb strings.Builder
		printer.Fprint(&sb, fset, n)
		return strings.Join(strings.Fields(sb.String()), " ")
	}
	funcs := map[string]*ast.FuncDecl{}
	for _, d := range file.Decls {
		if fd, ok := d.(*ast.FuncDecl); ok && fd.Recv != nil && fd.Body != nil {
			funcs[fd.Name.Name] = fd
		}
	}
	for _, n := range []string{"Push", "Finalise", "write"} {
		if funcs[n] == nil {
			return "", fmt.Errorf("method %s not found in morass.go", n)
		}
	}
	// every statement list of a function, with the statements rendered (hook calls removed)
	lists := func(fd *ast.FuncDecl) [][]string {
		var out [][]string
		ast.Inspect(fd.Body, func(n ast.Node) bool {
			var stmts []ast.Stmt
			switch b := n.(type) {
			case *ast.BlockStmt:
				stmts = b.List
			case *ast.CaseClause:
				stmts = b.Body
			case *ast.CommClause:
				stmts = b.Body
			}
			if stmts != nil {
				var l []string
				for _, s := range stmts {
					t := src(s)
					if strings.HasPrefix(t, "verifStep(") || strings.HasPrefix(t, "defer verifStep(") {
						continue
					}
					l = append(l, t)
				}
				out = append(out, l)
			}
			return true
		})
		return out
	}
	has := func(ls [][]string, pred func(l []string, i int) bool) bool {
		for _, l := range ls {
			for i := range l {
				if pred(l, i) {
					return true
				}
			}
		}
		return false
	}
	count := func(ls [][]string, stmt string) int {
		n := 0
		for _, l := range ls {
			for _, s := range l {
				if s == stmt {
					n++
				}
			}
		}
		return n
	}
	push, fin, wr := lists(funcs["Push"]), lists(funcs["Finalise"]), lists(funcs["write"])

	// Push: `m.writable <- m.chunk`, `m.writers.Add(1)`, `go m.write()` consecutively, in the caller
	pushOK := has(push, func(l []string, i int) bool {
		return i+2 < len(l) && l[i] == "m.writable <- m.chunk" && l[i+1] == "m.writers.Add(1)" && l[i+2] == "go m.write()"
	}) && count(push, "go m.write()") == 1
	// no other `go` statement anywhere in Push
	goCount := 0
	ast.Inspect(funcs["Push"].Body, func(n ast.Node) bool {
		if _, ok := n.(*ast.GoStmt); ok {
			goCount++
		}
		return true
	})
	pushOK = pushOK && goCount == 1
	// Finalise: Add(1) directly before the synchronous m.write(), m.writers.Wait() directly after
	finOK := has(fin, func(l []string, i int) bool {
		return i+2 < len(l) && l[i] == "m.writers.Add(1)" && l[i+1] == "m.write()" && l[i+2] == "m.writers.Wait()"
	})
	// write: the first statement defers Done
	first := ""
	if b := funcs["write"].Body.List; len(b) > 0 {
		first = src(b[0])
	}
	doneOK := first == "defer m.writers.Done()" && count(wr, "defer m.writers.Done()") == 1
	// write: the files append sits between Lock and Unlock of filesLock
	lockOK := has(wr, func(l []string, i int) bool {
		return i+2 < len(l) && l[i] == "m.filesLock.Lock()" && l[i+1] == "m.files = append(m.files, f)" && l[i+2] == "m.filesLock.Unlock()"
	})
	// the error slot is only written through setErr under its lock: setErr exists and locks
	setErrOK := false
	if fd := funcs["setErr"]; fd != nil {
		t := src(fd.Body)
		setErrOK = strings.Contains(t, "Lock()") && strings.Contains(t, "Unlock()")
	}
	// Push: the element-type check is the first statement and returns at once (the model's
	// rejected Push is a caller block that changes nothing)
	typeFirst := false
	if b := funcs["Push"].Body.List; len(b) > 0 {
		if is, ok := b[0].(*ast.IfStmt); ok && is.Init != nil && is.Else == nil && len(is.Body.List) == 1 {
			_, ret := is.Body.List[0].(*ast.ReturnStmt)
			typeFirst = ret && src(is.Init) == "typ := reflect.TypeOf(e)" && src(is.Cond) == "typ != m.typ"
		}
	}
	var sb strings.Builder
	sb.WriteString("namespace Biogo.Generated.MorassFacts\n\n")
	fmt.Fprintf(&sb, "/-- Push: `m.writable <- m.chunk; m.writers.Add(1); go m.write()` consecutive, the only `go` -/\ndef pushAddsBeforeSpawn : Bool := %v\n", pushOK)
	fmt.Fprintf(&sb, "/-- Finalise: `m.writers.Add(1); m.write(); m.writers.Wait()` consecutive -/\ndef finaliseAddsWritesThenWaits : Bool := %v\n", finOK)
	fmt.Fprintf(&sb, "/-- write: first statement is `defer m.writers.Done()` -/\ndef writeDefersDoneFirst : Bool := %v\n", doneOK)
	fmt.Fprintf(&sb, "/-- write: `m.files = append(m.files, f)` between filesLock.Lock and Unlock -/\ndef filesAppendUnderLock : Bool := %v\n", lockOK)
	fmt.Fprintf(&sb, "/-- setErr takes the error lock -/\ndef setErrLocks : Bool := %v\n", setErrOK)
	fmt.Fprintf(&sb, "/-- Push: first statement is `if typ := reflect.TypeOf(e); typ != m.typ { return ... }` -/\ndef pushChecksTypeFirst : Bool := %v\n", typeFirst)
	sb.WriteString("\nend Biogo.Generated.MorassFacts\n")
	return sb.String(), nil
}

func init() {
	hx.RegisterFacts(hx.FactGen{File: "MorassFacts.lean", Gen: morassFacts})
}
