package props

// Regenerated structural facts about morass.go that the concurrent model (Model/MorassConc.lean)
// relies on *below* hook granularity: the model's "push.send" block does
// `writable <- chunk; wg := wg+1; spawn writer` atomically in the caller, and the writer's last
// block decrements wg.  A rewrite that keeps every hook in place but moves `writers.Add(1)` into
// the spawned goroutine, drops the deferred `Done`, or takes the `files` append out of its lock
// cannot be exhibited by any forced schedule, so it is tied here by go/ast facts; the theorem
// `Biogo.Properties.C12_source.model_matches_source_structure` decides them on every run.

import (
	"fmt"
	"go/ast"
	"go/parser"
	"go/printer"
	"go/token"
	"path/filepath"
	"regexp"
	"strings"

	"verif/harness/hx"
)

func morassFacts(repo string) (string, error) {
	fset := token.NewFileSet()
	file, err := parser.ParseFile(fset, filepath.Join(repo, "morass", "morass.go"), nil, 0)
	if err != nil {
		return "", err
	}
	src := func(n ast.Node) string {
		var sb strings.Builder
		printer.Fprint(&sb, fset, n)
		return strings.Join(strings.Fields(sb.String()), " ")
	}
	// The facts are looked for in *every* method of the file and with the receiver / local names
	// abstracted, so that extracting a block into an unexported helper, renaming a local or
	// re-nesting a branch (rewrites that change nothing observable) leaves them unchanged.
	funcs := map[string]*ast.FuncDecl{}
	var all []*ast.FuncDecl
	for _, d := range file.Decls {
		if fd, ok := d.(*ast.FuncDecl); ok && fd.Recv != nil && fd.Body != nil {
			funcs[fd.Name.Name] = fd
			all = append(all, fd)
		}
	}
	if funcs["Push"] == nil || funcs["Finalise"] == nil {
		return "", fmt.Errorf("methods Push/Finalise not found in morass.go")
	}
	isHook := func(t string) bool {
		return strings.HasPrefix(t, "verifStep(") || strings.HasPrefix(t, "defer verifStep(")
	}
	// every statement list of a function, with the statements rendered (hook calls removed)
	lists := func(fd *ast.FuncDecl) [][]string {
		var out [][]string
		ast.Inspect(fd.Body, func(n ast.Node) bool {
			var stmts []ast.Stmt
			switch b := n.(type) {
			case *ast.BlockStmt:
				stmts = b.List
			case *ast.CaseClause:
				stmts = b.Body
			case *ast.CommClause:
				stmts = b.Body
			}
			if stmts != nil {
				var l []string
				for _, s := range stmts {
					t := src(s)
					if isHook(t) {
						continue
					}
					l = append(l, t)
				}
				out = append(out, l)
			}
			return true
		})
		return out
	}
	var everywhere [][]string
	for _, fd := range all {
		everywhere = append(everywhere, lists(fd)...)
	}
	has := func(ls [][]string, pred func(l []string, i int) bool) bool {
		for _, l := range ls {
			for i := range l {
				if pred(l, i) {
					return true
				}
			}
		}
		return false
	}
	count := func(ls [][]string, re *regexp.Regexp) int {
		n := 0
		for _, l := range ls {
			for _, s := range l {
				if re.MatchString(s) {
					n++
				}
			}
		}
		return n
	}
	var (
		reSend   = regexp.MustCompile(`^(\w+)\.writable <- (\w+)\.chunk$`)
		reAdd    = regexp.MustCompile(`^(\w+)\.writers\.Add\(1\)$`)
		reGo     = regexp.MustCompile(`^go (\w+)\.(\w+)\(\)$`)
		reWait   = regexp.MustCompile(`^(\w+)\.writers\.Wait\(\)$`)
		reDone   = regexp.MustCompile(`^defer (\w+)\.writers\.Done\(\)$`)
		reLock   = regexp.MustCompile(`^(\w+)\.filesLock\.Lock\(\)$`)
		reUnlock = regexp.MustCompile(`^(\w+)\.filesLock\.Unlock\(\)$`)
		reAppend = regexp.MustCompile(`^(\w+)\.files = append\((\w+)\.files, \w+\)$`)
	)
	// the one `go` statement of the file: `send chunk; writers.Add(1); go m.<writer>()` consecutive
	// in the goroutine that spawns (so the writer is counted before it exists)
	writer := ""
	pushOK := has(everywhere, func(l []string, i int) bool {
		if i+2 < len(l) && reSend.MatchString(l[i]) && reAdd.MatchString(l[i+1]) && reGo.MatchString(l[i+2]) {
			writer = reGo.FindStringSubmatch(l[i+2])[2]
			return true
		}
		return false
	})
	goCount := 0
	for _, fd := range all {
		ast.Inspect(fd.Body, func(n ast.Node) bool {
			if _, ok := n.(*ast.GoStmt); ok {
				goCount++
			}
			return true
		})
	}
	pushOK = pushOK && goCount == 1 && funcs[writer] != nil
	// the synchronous last write: Add(1) directly before m.<writer>(), writers.Wait() directly after
	finOK := writer != "" && has(everywhere, func(l []string, i int) bool {
		return i+2 < len(l) && reAdd.MatchString(l[i]) && regexp.MustCompile(`^\w+\.`+writer+`\(\)$`).MatchString(l[i+1]) && reWait.MatchString(l[i+2])
	})
	// the writer: the first statement defers Done (and it is the only Done)
	doneOK := false
	if fd := funcs[writer]; fd != nil && len(fd.Body.List) > 0 {
		doneOK = reDone.MatchString(src(fd.Body.List[0])) && count(everywhere, reDone) == 1
	}
	// every append to the file list sits directly between Lock and Unlock of filesLock
	appends := count(everywhere, reAppend)
	locked := 0
	for _, l := range everywhere {
		for i := range l {
			if reAppend.MatchString(l[i]) && i > 0 && i+1 < len(l) && reLock.MatchString(l[i-1]) && reUnlock.MatchString(l[i+1]) {
				locked++
			}
		}
	}
	lockOK := appends >= 1 && locked == appends
	// the error slot is only written through setErr under its lock: setErr exists and locks
	setErrOK := false
	if fd := funcs["setErr"]; fd != nil {
		t := src(fd.Body)
		setErrOK = strings.Contains(t, "Lock()") && strings.Contains(t, "Unlock()")
	}
	// Push: the element-type check is the first statement and returns at once (the model's
	// rejected Push is a caller block that changes nothing)
	typeFirst := false
	if b := funcs["Push"].Body.List; len(b) > 0 {
		if is, ok := b[0].(*ast.IfStmt); ok && is.Init != nil && is.Else == nil && len(is.Body.List) == 1 {
			_, ret := is.Body.List[0].(*ast.ReturnStmt)
			mi := regexp.MustCompile(`^(\w+) := reflect\.TypeOf\(\w+\)$`).FindStringSubmatch(src(is.Init))
			typeFirst = ret && mi != nil && regexp.MustCompile(`^`+mi[1]+` != \w+\.typ$`).MatchString(src(is.Cond))
		}
	}
	var sb strings.Builder
	sb.WriteString("namespace Biogo.Generated.MorassFacts\n\n")
	fmt.Fprintf(&sb, "/-- `m.writable <- m.chunk; m.writers.Add(1); go m.write()` consecutive (in Push or a helper), the only `go` of the file -/\ndef pushAddsBeforeSpawn : Bool := %v\n", pushOK)
	fmt.Fprintf(&sb, "/-- `m.writers.Add(1); m.write(); m.writers.Wait()` consecutive (in Finalise or a helper) -/\ndef finaliseAddsWritesThenWaits : Bool := %v\n", finOK)
	fmt.Fprintf(&sb, "/-- the spawned writer method: first statement is `defer m.writers.Done()`, the only Done -/\ndef writeDefersDoneFirst : Bool := %v\n", doneOK)
	fmt.Fprintf(&sb, "/-- every `m.files = append(m.files, f)` directly between filesLock.Lock and Unlock -/\ndef filesAppendUnderLock : Bool := %v\n", lockOK)
	fmt.Fprintf(&sb, "/-- setErr takes the error lock -/\ndef setErrLocks : Bool := %v\n", setErrOK)
	fmt.Fprintf(&sb, "/-- Push: first statement is `if typ := reflect.TypeOf(e); typ != m.typ { return ... }` -/\ndef pushChecksTypeFirst : Bool := %v\n", typeFirst)
	sb.WriteString("\nend Biogo.Generated.MorassFacts\n")
	return sb.String(), nil
}

func init() {
	hx.RegisterFacts(hx.FactGen{File: "MorassFacts.lean", Gen: morassFacts})
}
