package props

// C01 — FASTA and FASTQ write-then-read reproduces every record.
//
// Inputs
//   fa <width> <typ> <alphabet> {<name> <desc> <letters> <quals>}*
//   fq <qid> <typ> <enc> <alphabet> {<name> <desc> <letters> <quals>}*
//   fap <width> <IDPrefix> <SeqPrefix> <typ> <alphabet> {...}*      (prefixes in hex; compared with the model, the round trip is not demanded)
//   fax <width> <typ> <alphabet> {...}*       fa through a failing io.Writer, once per failure point (see below)
//   fqx <qid> <typ> <enc> <alphabet> {...}*   fq through a failing io.Writer
//   fapx <width> <IDPrefix> <SeqPrefix> <typ> <alphabet> {...}*   fax with the writer's prefix fields set (a multi-byte SeqPrefix is the
//        only underlying write of the FASTA writer after the header that is longer than one byte)
//   fva <width|-> <prec|-> <typ> <alphabet> <name> <desc> <letters> <quals>
//   fvq <plus> <prec|-> <typ> <enc> <alphabet> <name> <desc> <letters> <quals>
//
// typ: s = *linear.Seq, q = *linear.QSeq; enc = numeric alphabet.Encoding of the QSeq;
// record fields in hex.  The records are built from the repository's own types, written
// with fasta.Writer / fastq.Writer to a bytes.Buffer and read back with the matching reader.
//
// fva / fvq: one sequence formatted with the %a / %q verb of its Format method (width,
// precision and the '+' flag as given) and read back with the matching reader.  These verbs are
// anchors of C01 but not part of its statement: they are only compared with the model.
//
// Observation
//   w <n,...> <delta,...> <fnv64 of the bytes> <len of the bytes> r <call history>
//   f <fnv64 of the bytes> <len of the bytes> r <call history>            (fva, fvq)
// n = value returned by each Write, delta = growth of the buffer during that Write.
//
// fax / fqx: the records are first written to a bytes.Buffer (the fault-free text, L bytes), then,
// for every k = 0..L, written again with a fresh writer to an io.Writer that accepts exactly k
// bytes in total and then fails (short write + error); the run stops at the first Write that
// returns an error.  Observation
//   x <L> <fnv64 of the fault-free text> {<n,...>/<delta,...>/<e>/<p>}        one token per k
// n, delta as above (the failed Write included), e = index of the Write that returned an error
// or "-", p = 1 when the bytes emitted are the first bytes of the fault-free text.

import (
	"bytes"
	"errors"
	"fmt"
	"go/ast"
	"go/parser"
	"go/printer"
	"go/token"
	"io"
	"path/filepath"
	"strings"

	"github.com/biogo/biogo/alphabet"
	"github.com/biogo/biogo/io/seqio"
	"github.com/biogo/biogo/io/seqio/fasta"
	"github.com/biogo/biogo/io/seqio/fastq"
	bseq "github.com/biogo/biogo/seq"

	"verif/harness/hx"
)

func init() {
	hx.Register(&hx.Prop{ID: "C01", Gen: c01Gen, Exec: c01Exec, Shrink: c01Shrink})
	hx.RegisterFacts(hx.FactGen{File: "Seqio.lean", Gen: seqioFacts})
}

func c01Exec(input string) string {
	f := hx.Fields(input)
	var (
		buf    bytes.Buffer
		w      seqio.Writer
		rs     []sioRec
		typ    string
		alpha  alphabet.Alphabet
		enc    = alphabet.Sanger
		ns, ds []int
	)
	switch f[0] {
	case "fva", "fvq":
		return c01FormatExec(f)
	case "fax", "fqx", "fapx":
		return c01FaultExec(f)
	case "fa":
		typ, alpha, rs = f[2], builtinByName(f[3]), sioParseRecs(f[4:])
		w = fasta.NewWriter(&buf, hx.Atoi(f[1]))
	case "fap": // fa with the exported prefix fields of writer and reader set by the user
		typ, alpha, rs = f[4], builtinByName(f[5]), sioParseRecs(f[6:])
		fw := fasta.NewWriter(&buf, hx.Atoi(f[1]))
		fw.IDPrefix, fw.SeqPrefix = hx.Unhex(f[2]), hx.Unhex(f[3])
		w = fw
	case "fq":
		typ, enc, alpha, rs = f[2], sioEnc(f[3]), builtinByName(f[4]), sioParseRecs(f[5:])
		fw := fastq.NewWriter(&buf)
		fw.QID = f[1] == "1"
		w = fw
	default:
		panic("c01: bad input " + input)
	}
	for _, r := range rs {
		before := buf.Len()
		n, err := w.Write(sioSeq(typ, r, alpha, enc))
		if err != nil {
			return "werr " + hx.Hex([]byte(err.Error()))
		}
		ns = append(ns, n)
		ds = append(ds, buf.Len()-before)
	}
	data := append([]byte(nil), buf.Bytes()...)
	var calls string
	if f[0] == "fa" {
		calls = sioReadFasta(data, typ, alpha)
	} else if f[0] == "fap" {
		calls = sioReadFastaPfx(data, typ, alpha, hx.Unhex(f[2]), hx.Unhex(f[3]))
	} else {
		calls = sioReadFastq(data, typ, alpha, enc)
	}
	return fmt.Sprintf("w %s %s %s %d r %s", hx.Ints(ns), hx.Ints(ds), sioFnv(data), len(data), calls)
}

// sioLimitWriter accepts limit bytes in total, then fails (short write + error).
type sioLimitWriter struct {
	buf   bytes.Buffer
	limit int
}

var errSioFull = errors.New("device full")

func (l *sioLimitWriter) Write(p []byte) (int, error) {
	room := l.limit - l.buf.Len()
	if room >= len(p) {
		return l.buf.Write(p)
	}
	l.buf.Write(p[:room])
	return room, errSioFull
}

func c01FaultExec(f []string) string {
	var (
		rs    []sioRec
		typ   string
		alpha alphabet.Alphabet
		enc   = alphabet.Sanger
		mk    func(io.Writer) seqio.Writer
	)
	if f[0] == "fax" {
		typ, alpha, rs = f[2], builtinByName(f[3]), sioParseRecs(f[4:])
		width := hx.Atoi(f[1])
		mk = func(w io.Writer) seqio.Writer { return fasta.NewWriter(w, width) }
	} else if f[0] == "fapx" {
		typ, alpha, rs = f[4], builtinByName(f[5]), sioParseRecs(f[6:])
		width, idp, sp := hx.Atoi(f[1]), hx.Unhex(f[2]), hx.Unhex(f[3])
		mk = func(w io.Writer) seqio.Writer {
			fw := fasta.NewWriter(w, width)
			fw.IDPrefix, fw.SeqPrefix = idp, sp
			return fw
		}
	} else {
		typ, enc, alpha, rs = f[2], sioEnc(f[3]), builtinByName(f[4]), sioParseRecs(f[5:])
		qid := f[1] == "1"
		mk = func(w io.Writer) seqio.Writer {
			fw := fastq.NewWriter(w)
			fw.QID = qid
			return fw
		}
	}
	var full bytes.Buffer
	w := mk(&full)
	for _, r := range rs {
		if _, err := w.Write(sioSeq(typ, r, alpha, enc)); err != nil {
			return "werr " + hx.Hex([]byte(err.Error()))
		}
	}
	out := []string{"x", fmt.Sprint(full.Len()), sioFnv(full.Bytes())}
	for k := 0; k <= full.Len(); k++ {
		lw := &sioLimitWriter{limit: k}
		w := mk(lw)
		var ns, ds []int
		e := "-"
		for i, r := range rs {
			before := lw.buf.Len()
			n, err := w.Write(sioSeq(typ, r, alpha, enc))
			ns = append(ns, n)
			ds = append(ds, lw.buf.Len()-before)
			if err != nil {
				e = fmt.Sprint(i)
				break
			}
		}
		out = append(out, fmt.Sprintf("%s/%s/%s/%s", hx.Ints(ns), hx.Ints(ds), e, hx.B(bytes.HasPrefix(full.Bytes(), lw.buf.Bytes()))))
	}
	return strings.Join(out, " ")
}

func c01FormatExec(f []string) string {
	verb := "%"
	var (
		typ   string
		alpha alphabet.Alphabet
		enc   = alphabet.Sanger
		rs    []sioRec
	)
	if f[0] == "fva" {
		if f[1] != "-" {
			verb += f[1]
		}
		if f[2] != "-" {
			verb += "." + f[2]
		}
		verb += "a"
		typ, alpha, rs = f[3], builtinByName(f[4]), sioParseRecs(f[5:])
	} else {
		if f[1] == "1" {
			verb += "+"
		}
		if f[2] != "-" {
			verb += "." + f[2]
		}
		verb += "q"
		typ, enc, alpha, rs = f[3], sioEnc(f[4]), builtinByName(f[5]), sioParseRecs(f[6:])
	}
	if len(rs) != 1 {
		return "norec"
	}
	out := []byte(fmt.Sprintf(verb, sioSeq(typ, rs[0], alpha, enc)))
	var calls string
	if f[0] == "fva" {
		calls = sioReadFasta(out, typ, alpha)
	} else {
		calls = sioReadFastq(out, typ, alpha, enc)
	}
	return fmt.Sprintf("f %s %d r %s", sioFnv(out), len(out), calls)
}

func c01FormatGen(g *hx.Gen) {
	alpha := sioAlphabets[g.Intn(len(sioAlphabets))]
	typ := "s"
	if g.Chance(0.6) {
		typ = "q"
	}
	enc := sioPhredEncodings[g.Intn(len(sioPhredEncodings))]
	width := g.Pick(1, 2, 3, 60, 70, 4096)
	rs := sioRecords(g, alpha, width, typ == "q", enc, 1)
	if len(rs) == 0 {
		rs = []sioRec{{name: sioName(g), desc: sioDesc(g)}}
	}
	r := rs[0]
	if typ == "q" && len(r.quals) > 0 && g.Chance(0.4) {
		// scores below the QSeq threshold (3): the letter is replaced by the ambiguous letter
		for k := g.Pick(1, 2, 5); k > 0; k-- {
			r.quals[g.Intn(len(r.quals))] = byte(g.Pick(0, 1, 2, 3))
		}
	}
	if len(r.letters) > 0 && g.Chance(0.2) {
		r.letters[g.Intn(len(r.letters))] = byte(builtinByName(alpha).Gap())
	}
	if len(r.letters) > 0 && g.Chance(0.03) {
		r.letters[g.Intn(len(r.letters))] = byte(g.Pick(0x80, 0xa0, 0xff, 0xc2))
	}
	prec := "-"
	if g.Chance(0.15) {
		prec = fmt.Sprint(g.Pick(0, 1, len(r.letters)-1, len(r.letters), len(r.letters)+1, 5))
		if strings.HasPrefix(prec, "-") {
			prec = "0"
		}
	}
	if g.Chance(0.5) {
		w := fmt.Sprint(width)
		if g.Chance(0.25) {
			w = "-"
		}
		g.Case(fmt.Sprintf("fva %s %s %s %s", w, prec, typ, alpha) + sioRecTokens([]sioRec{r}))
	} else {
		g.Case(fmt.Sprintf("fvq %s %s %s %d %s", hx.B(g.Chance(0.5)), prec, typ, int(enc), alpha) + sioRecTokens([]sioRec{r}))
	}
}

// c01FaultGen: short records (the run is repeated once per byte of the text) written through a
// writer that fails after k bytes, for every k: FASTA at widths around the lengths, FASTQ with
// both styles of the '+' line.
func c01FaultGen(g *hx.Gen, alpha, typ string) {
	pool := sioLetterPool(alpha)
	enc := alphabet.Sanger
	if typ == "q" {
		enc = sioPhredEncodings[g.Intn(len(sioPhredEncodings))]
	}
	n := g.Pick(1, 1, 2, 3)
	rs := make([]sioRec, n)
	for i := range rs {
		l := g.Pick(0, 1, 2, 5, 7, 12)
		name := sioName(g)
		if len(name) > 8 {
			name = name[:8]
		}
		desc := sioDesc(g)
		if len(desc) > 9 {
			desc = strings.TrimSpace(desc[:9])
		}
		rs[i] = sioRec{name: name, desc: desc, letters: g.Letters(pool, l)}
		if typ == "q" {
			rs[i].quals = sioQuals(g, enc, l)
		}
	}
	if g.Chance(0.2) {
		pp := sioPrefixPairs[g.Intn(len(sioPrefixPairs))]
		g.Case(fmt.Sprintf("fapx %d %s %s %s %s", g.Pick(1, 2, 3, 5, 7, 60), hx.Hex([]byte(pp[0])), hx.Hex([]byte(pp[1])), typ, alpha) + sioRecTokens(rs))
	} else if g.Chance(0.5) {
		g.Case(fmt.Sprintf("fax %d %s %s", g.Pick(1, 2, 3, 5, 7, 60), typ, alpha) + sioRecTokens(rs))
	} else {
		g.Case(fmt.Sprintf("fqx %s %s %d %s", hx.B(g.Chance(0.6)), typ, int(enc), alpha) + sioRecTokens(rs))
	}
}

func c01Gen(g *hx.Gen) {
	n := g.Scale(10000, 150000)
	for k := 0; k < n && !g.Done(); k++ {
		if g.Chance(0.12) {
			c01FormatGen(g)
			continue
		}
		alpha := sioAlphabets[g.Intn(len(sioAlphabets))]
		typ := "s"
		if g.Chance(0.5) {
			typ = "q"
		}
		if g.Chance(0.04) {
			c01FaultGen(g, alpha, typ)
			continue
		}
		if g.Chance(0.03) {
			pp := sioPrefixPairs[g.Intn(len(sioPrefixPairs))]
			width := sioWidth(g)
			rs := sioRecords(g, alpha, width, typ == "q", alphabet.Sanger, 3)
			g.Case(fmt.Sprintf("fap %d %s %s %s %s", width, hx.Hex([]byte(pp[0])), hx.Hex([]byte(pp[1])), typ, alpha) + sioRecTokens(rs))
			continue
		}
		if g.Chance(0.45) {
			width := sioWidth(g)
			rs := sioRecords(g, alpha, width, typ == "q", alphabet.Sanger, 5)
			if g.Chance(0.15) {
				rs = sioRecordsDecreasing(g, alpha, width, typ == "q", alphabet.Sanger, 6)
			}
			if g.Chance(0.04) {
				rs, width = c01Spoil(g, rs, width, false)
			}
			g.Case(fmt.Sprintf("fa %d %s %s", width, typ, alpha) + sioRecTokens(rs))
		} else {
			enc := sioPhredEncodings[g.Intn(len(sioPhredEncodings))]
			if typ == "s" {
				enc = alphabet.Sanger
			}
			rs := sioRecords(g, alpha, g.Pick(1, 50, 100, 4096), typ == "q", enc, 5)
			if g.Chance(0.15) {
				rs = sioRecordsDecreasing(g, alpha, g.Pick(1, 50, 100, 4096), typ == "q", enc, 6)
			}
			if g.Chance(0.04) {
				rs, _ = c01Spoil(g, rs, 1, true)
				if typ == "q" && g.Chance(0.3) {
					enc = alphabet.Encoding(g.Pick(-1, 1))
				}
			}
			g.Case(fmt.Sprintf("fq %s %s %d %s", hx.B(g.Chance(0.5)), typ, int(enc), alpha) + sioRecTokens(rs))
		}
	}
}

// c01Spoil leaves the domain of the property on purpose (names with blanks, untrimmed
// descriptions, letters that are blanks or '>'/'+', scores outside the printable range,
// width 0): such cases only compare model and implementation.
func c01Spoil(g *hx.Gen, rs []sioRec, width int, fastqStyle bool) ([]sioRec, int) {
	if len(rs) == 0 {
		rs = []sioRec{{name: "x", letters: []byte("acgt"), quals: []byte{1, 2, 3, 4}}}
	}
	i := g.Intn(len(rs))
	r := &rs[i]
	switch g.Intn(7) {
	case 0:
		r.name = r.name + " " + sioName(g)
	case 1:
		r.desc = " " + r.desc
	case 2:
		r.desc = r.desc + []string{" ", "\t", "  x ", " "}[g.Intn(4)]
	case 3:
		if len(r.letters) > 0 {
			r.letters[g.Intn(len(r.letters))] = byte(g.Pick(' ', '>', '+', '@', '\t', 0x85, 0xa0, 0xc2))
		}
	case 4:
		if len(r.quals) > 0 {
			r.quals[g.Intn(len(r.quals))] = byte(g.Pick(94, 95, 63, 64, 127, 200, 222, 223, 254, 255, 0, 1))
		}
	case 5:
		if !fastqStyle {
			width = 0
		} else if len(r.letters) > 0 {
			r.letters[0] = '+'
		}
	case 6:
		r.name = ""
		r.desc = ""
	}
	return rs, width
}

func c01Shrink(input string) []string {
	f := hx.Fields(input)
	hdr := 4
	switch f[0] {
	case "fq", "fva", "fqx":
		hdr = 5
	case "fap", "fapx":
		hdr = 6
	case "fvq":
		hdr = 6
	}
	if len(f) < hdr {
		return nil
	}
	head := strings.Join(f[:hdr], " ")
	rs := sioParseRecs(f[hdr:])
	var out []string
	for i := range rs { // drop one record
		c := append(append([]sioRec{}, rs[:i]...), rs[i+1:]...)
		out = append(out, head+sioRecTokens(c))
	}
	for i := range rs { // shorten one field
		for k := 0; k < 3; k++ {
			c := append([]sioRec{}, rs...)
			switch k {
			case 0:
				if len(c[i].letters) == 0 {
					continue
				}
				h := len(c[i].letters) / 2
				c[i].letters = c[i].letters[:h]
				if len(c[i].quals) > h {
					c[i].quals = c[i].quals[:h]
				}
			case 1:
				if len(c[i].name) == 0 {
					continue
				}
				c[i].name = c[i].name[:len(c[i].name)/2]
			case 2:
				if len(c[i].desc) == 0 {
					continue
				}
				c[i].desc = strings.TrimSpace(c[i].desc[:len(c[i].desc)/2])
			}
			out = append(out, head+sioRecTokens(c))
		}
	}
	return out
}

// ---- regenerated facts ------------------------------------------------------------------
//
// Biogo/Generated/Seqio.lean: the default prefixes (parsed from fasta.go), DefaultQphred and
// DefaultEncoding (package seq), the numeric values of the encodings, the two
// float-generated conversion tables of package alphabet (dumped from the running package),
// and source fingerprints of the modelled functions (informational).

func seqioFacts(repo string) (string, error) {
	var sb strings.Builder
	sb.WriteString("import Biogo.Model.Fastq\nnamespace Biogo.Generated.Seqio\n\n")
	lit := func(s string) string {
		var parts []string
		for _, b := range []byte(s) {
			parts = append(parts, fmt.Sprint(int(b)))
		}
		return "[" + strings.Join(parts, ", ") + "]"
	}
	fset := token.NewFileSet()
	consts := map[string]string{}
	fps := map[string]string{}
	sites := map[string][]string{}
	for _, rel := range []string{"io/seqio/fasta/fasta.go", "io/seqio/fastq/fastq.go"} {
		file, err := parser.ParseFile(fset, filepath.Join(repo, rel), nil, 0)
		if err != nil {
			return "", err
		}
		pkg := file.Name.Name
		for _, d := range file.Decls {
			switch v := d.(type) {
			case *ast.GenDecl:
				if v.Tok != token.CONST {
					continue
				}
				for _, sp := range v.Specs {
					vs := sp.(*ast.ValueSpec)
					for i, n := range vs.Names {
						if i < len(vs.Values) {
							if bl, ok := vs.Values[i].(*ast.BasicLit); ok && bl.Kind == token.STRING {
								consts[pkg+"."+n.Name] = strings.Trim(bl.Value, "\"`")
							}
						}
					}
				}
			case *ast.FuncDecl:
				var b bytes.Buffer
				printer.Fprint(&b, fset, v)
				name := v.Name.Name
				if v.Recv != nil && len(v.Recv.List) == 1 {
					var rb bytes.Buffer
					printer.Fprint(&rb, fset, v.Recv.List[0].Type)
					name = strings.TrimPrefix(rb.String(), "*") + "." + name
				}
				fps[pkg+"."+name] = sioFnv(b.Bytes())
				// every expression of the function that can panic at run time: index, slice,
				// division / remainder, single-valued type assertion
				if v.Body != nil {
					assigned := map[ast.Expr]bool{} // x, ok := e.(T) does not panic
					ast.Inspect(v.Body, func(n ast.Node) bool {
						switch st := n.(type) {
						case *ast.AssignStmt:
							if len(st.Lhs) == 2 && len(st.Rhs) == 1 {
								assigned[st.Rhs[0]] = true
							}
						case *ast.IfStmt:
							if as, ok := st.Init.(*ast.AssignStmt); ok && len(as.Lhs) == 2 && len(as.Rhs) == 1 {
								assigned[as.Rhs[0]] = true
							}
						}
						return true
					})
					ast.Inspect(v.Body, func(n ast.Node) bool {
						e, ok := n.(ast.Expr)
						if !ok {
							return true
						}
						keep := false
						switch x := e.(type) {
						case *ast.IndexExpr, *ast.SliceExpr:
							keep = true
						case *ast.BinaryExpr:
							keep = x.Op == token.REM || x.Op == token.QUO
						case *ast.TypeAssertExpr:
							keep = !assigned[e] && x.Type != nil
						}
						if keep {
							var eb bytes.Buffer
							printer.Fprint(&eb, fset, e)
							sites[pkg+"."+name] = append(sites[pkg+"."+name], eb.String())
						}
						return true
					})
				}
			}
		}
	}
	idp, ok1 := consts["fasta.DefaultIDPrefix"]
	sqp, ok2 := consts["fasta.DefaultSeqPrefix"]
	if !ok1 || !ok2 {
		return "", fmt.Errorf("fasta.DefaultIDPrefix / DefaultSeqPrefix not found as string constants")
	}
	fmt.Fprintf(&sb, "def fastaIDPrefix : List UInt8 := %s\n", lit(idp))
	fmt.Fprintf(&sb, "def fastaSeqPrefix : List UInt8 := %s\n", lit(sqp))
	fmt.Fprintf(&sb, "def defaultQphred : Nat := %d\n", int(bseq.DefaultQphred))
	fmt.Fprintf(&sb, "def defaultEncoding : Int := %d\n", int(bseq.DefaultEncoding))
	fmt.Fprintf(&sb, "def encodingValues : List Int := [%d, %d, %d, %d, %d, %d, %d]\n",
		int(alphabet.None), int(alphabet.Sanger), int(alphabet.Solexa), int(alphabet.Illumina1_3),
		int(alphabet.Illumina1_5), int(alphabet.Illumina1_8), int(alphabet.Illumina1_9))
	var ps, sp []string
	for i := 0; i < 256; i++ {
		ps = append(ps, fmt.Sprint(int(byte(alphabet.Qphred(i).Qsolexa()))))
		sp = append(sp, fmt.Sprint(int(alphabet.Qsolexa(int8(i-128)).Qphred())))
	}
	fmt.Fprintf(&sb, "/-- byte(Qphred(i).Qsolexa()) for i = 0..255 -/\ndef phredSolexa : Array UInt8 := #[%s]\n", strings.Join(ps, ", "))
	fmt.Fprintf(&sb, "/-- Qsolexa(i-128).Qphred() for i = 0..255 -/\ndef solexaPhred : Array UInt8 := #[%s]\n", strings.Join(sp, ", "))
	sb.WriteString("def qtables : Biogo.Fastq.QTables :=\n  { phredSolexa := fun q => phredSolexa.getD q.toNat 0, solexaPhred := fun i => solexaPhred.getD i.toNat 0 }\n\n")
	sb.WriteString("/-- FNV-1a fingerprints of the printed source of the modelled functions (informational) -/\ndef fingerprints : List (String × String) := [\n")
	var rows []string
	for _, k := range []string{"fasta.Reader.Read", "fasta.Reader.header", "fasta.Writer.Write", "fastq.Reader.Read",
		"fastq.Reader.readHeader", "fastq.Writer.Write", "fastq.Writer.writeHeader", "fastq.maybeID1", "fastq.maybeID2", "fastq.isSpace"} {
		v, ok := fps[k]
		if !ok {
			return "", fmt.Errorf("modelled function %s not found in the source", k)
		}
		rows = append(rows, fmt.Sprintf("  (%q, %q)", k, v))
	}
	sb.WriteString(strings.Join(rows, ",\n") + "]\n\n")
	sb.WriteString("/-- per modelled function, in source order: the index, slice, division/remainder and\n    single-valued type-assertion expressions (everything in it that can panic at run time) -/\ndef panicSites : List (String × List String) := [\n")
	rows = rows[:0]
	for _, k := range []string{"fasta.Reader.Read", "fasta.Reader.header", "fasta.Writer.Write", "fastq.Reader.Read",
		"fastq.Reader.readHeader", "fastq.Writer.Write", "fastq.Writer.writeHeader", "fastq.maybeID1", "fastq.maybeID2"} {
		var qs []string
		for _, e := range sites[k] {
			qs = append(qs, fmt.Sprintf("%q", e))
		}
		rows = append(rows, fmt.Sprintf("  (%q, [%s])", k, strings.Join(qs, ", ")))
	}
	sb.WriteString(strings.Join(rows, ",\n") + "]\n\nend Biogo.Generated.Seqio\n")
	return sb.String(), nil
}
