package props

// C15, part "merge" — the merger between the q-gram filter and the DP aligner
// (align/pals/filter/merge.go, trapezoid.go).
//
// Input
//   mg <self> <k> <maxError> <tubeOffset> <maxIGap> <truns> <qruns> <hits>
//     self          1: NewMerger(..., selfCompare=true)
//     k             word size of the k-mer index handed to NewMerger (bottomPadding = k+2)
//     maxError, tubeOffset   filter.Params (MinMatch is not read by the merger)
//     maxIGap       the aligner's maximum inter-segment gap
//     truns, qruns  target and query as comma separated run lengths, alternately valid letters ('a')
//                   and invalid ones ('n'), starting with a valid run (which may be 0 long)
//     hits          ';' separated From:To:Diagonal in the order they are handed to MergeFilterHit ("-": none)
//
// Observation
//   T=<traps>   the slice FinaliseMerge returned, in the order returned, ';' separated
//               Top:Bottom:Left:Right ("-": empty)
//   err:index   kmerindex.New refused k / the target length
//   (a panic is reported by the framework as panic:<hex>)

import (
	"fmt"
	"go/ast"
	"go/constant"
	"go/importer"
	"go/parser"
	"go/token"
	"go/types"
	"path/filepath"
	"sort"
	"strings"

	"github.com/biogo/biogo/align/pals/filter"
	"github.com/biogo/biogo/alphabet"
	"github.com/biogo/biogo/index/kmerindex"
	"github.com/biogo/biogo/seq/linear"

	"verif/harness/hx"
)

func mgSeq(runs []int) *linear.Seq {
	var b []byte
	for i, r := range runs {
		c := byte('a')
		if i%2 == 1 {
			c = 'n'
		}
		for j := 0; j < r; j++ {
			b = append(b, c)
		}
	}
	return linear.NewSeq("s", alphabet.BytesToLetters(b), alphabet.DNA)
}

func mgExec(input string) string {
	f := hx.Fields(input)
	if len(f) != 9 || f[0] != "mg" {
		panic("c15 merge: bad input")
	}
	self := f[1] == "1"
	k, e, off, gap := hx.Atoi(f[2]), hx.Atoi(f[3]), hx.Atoi(f[4]), hx.Atoi(f[5])
	target := mgSeq(hx.ParseInts(f[6]))
	query := mgSeq(hx.ParseInts(f[7]))
	ki, err := kmerindex.New(k, target)
	if err != nil {
		return "err:index"
	}
	p := &filter.Params{WordSize: k, MinMatch: 0, MaxError: e, TubeOffset: off}
	m := filter.NewMerger(ki, query, p, gap, self)
	if f[8] != "-" {
		for _, hs := range strings.Split(f[8], ";") {
			x := strings.Split(hs, ":")
			if len(x) != 3 {
				panic("c15 merge: bad hit")
			}
			h := filter.Hit{From: hx.Atoi(x[0]), To: hx.Atoi(x[1]), Diagonal: hx.Atoi(x[2])}
			m.MergeFilterHit(&h)
		}
	}
	traps := m.FinaliseMerge()
	if len(traps) == 0 {
		return "T=-"
	}
	ss := make([]string, len(traps))
	for i, t := range traps {
		ss[i] = fmt.Sprintf("%d:%d:%d:%d", t.Top, t.Bottom, t.Left, t.Right)
	}
	return "T=" + strings.Join(ss, ";")
}

// ---- generator ----

type mgHit struct{ from, to, diag int }

func mgRender(self bool, k, e, off, gap int, truns, qruns []int, hits []mgHit) string {
	hs := "-"
	if len(hits) > 0 {
		ss := make([]string, len(hits))
		for i, h := range hits {
			ss[i] = fmt.Sprintf("%d:%d:%d", h.from, h.to, h.diag)
		}
		hs = strings.Join(ss, ";")
	}
	return fmt.Sprintf("mg %s %d %d %d %d %s %s %s", hx.B(self), k, e, off, gap, hx.Ints(truns), hx.Ints(qruns), hs)
}

// runs of a sequence of the given length: all valid, or with a few runs of invalid letters whose
// lengths straddle maxIGap
func mgRuns(g *hx.Gen, n, gap int, withN bool) []int {
	if !withN || n < 20 {
		return []int{n}
	}
	var runs []int
	left := n
	for left > 0 {
		v := g.Range(0, 60)
		if g.Chance(0.3) {
			v = g.Range(0, 8)
		}
		if v > left {
			v = left
		}
		runs = append(runs, v)
		left -= v
		if left == 0 {
			break
		}
		x := g.Range(1, gap+4)
		if g.Chance(0.2) {
			x = g.Range(gap, 3*gap+3)
		}
		if x > left {
			x = left
		}
		runs = append(runs, x)
		left -= x
	}
	return runs
}

// hit lists shaped like the filter's output: hits on tube diagonals Tlen - i*off, query intervals
// inside the query, From non-decreasing; clustered so that the merge, bridge, expiry and
// new-trapezoid branches are all taken
func mgFilterLike(g *hx.Gen) string {
	k := g.Range(4, 8)
	e := g.Pick(0, 0, 1, 2, 3, 4)
	off := e + g.Pick(0, 1, 1, 2, 2, 3, 4, 5, 8, 32)
	if off < 1 {
		off = 1
	}
	gap := 5
	if g.Chance(0.15) {
		gap = g.Range(0, 8)
	}
	self := g.Chance(0.35)
	qlen := g.Range(k+20, 600)
	if g.Chance(0.2) {
		qlen = g.Range(k+2, 40)
	}
	tlen := g.Range(k+1, 600)
	if self {
		tlen = qlen
	}
	withN := g.Chance(0.3)
	qruns := mgRuns(g, qlen, gap, withN && g.Chance(0.7))
	truns := mgRuns(g, tlen, gap, withN && g.Chance(0.7))
	if self {
		truns = qruns
	}
	maxTube := (tlen + qlen - k - 1) / off
	minTube := 0
	// in a self comparison the filter only reports the upper triangle; its hits start at the tube of the
	// main diagonal; the merger's cut (Left - maxIGap <= MaxError) is exercised by tubes around it
	cut := (tlen + e + gap) / off
	if self && g.Chance(0.8) {
		minTube = tlen / off
	}
	if maxTube < minTube {
		maxTube = minTube
	}
	n := g.Range(0, g.Scale(30, 60))
	var hits []mgHit
	from := g.Range(0, qlen/3)
	center := g.Range(minTube, maxTube)
	if self && g.Chance(0.7) {
		center = cut + g.Range(-1, 3)
	}
	for i := 0; i < n; i++ {
		switch g.Intn(10) {
		case 0: // a new cluster
			center = g.Range(minTube, maxTube)
			if self && g.Chance(0.5) {
				center = cut + g.Range(-1, 3)
			}
		case 1:
			center += g.Range(-3, 3)
		}
		tube := center + g.Pick(0, 0, 0, 1, -1, 1, -1, 2, -2, 3)
		if tube < minTube {
			tube = minTube
		}
		if tube > maxTube {
			tube = maxTube
		}
		step := g.Range(0, 12)
		switch g.Intn(8) {
		case 0:
			step = 0
		case 1:
			step = g.Range(k, k+4) // around bottomPadding
		case 2:
			step = g.Range(20, 120)
		}
		from += step
		if from > qlen-k {
			from = qlen - k
		}
		ln := k + g.Range(0, 60)
		if g.Chance(0.3) {
			ln = k + g.Range(0, 3)
		}
		to := from + ln
		if to > qlen {
			to = qlen
		}
		hits = append(hits, mgHit{from, to, tlen - tube*off})
	}
	return mgRender(self, k, e, off, gap, truns, qruns, hits)
}

// unconstrained small cases: any order, intervals that may be empty or reversed, diagonals that
// reach the sentinel (outside the modelled domain)
func mgWild(g *hx.Gen) string {
	k := g.Range(4, 6)
	e := g.Range(0, 3)
	off := g.Range(1, 6)
	gap := g.Range(0, 6)
	self := g.Chance(0.3)
	qlen := g.Range(k+1, 60)
	tlen := g.Range(k+1, 60)
	if self {
		tlen = qlen
	}
	qruns := mgRuns(g, qlen, gap, g.Chance(0.4))
	truns := mgRuns(g, tlen, gap, g.Chance(0.4))
	if self {
		truns = qruns
	}
	n := g.Range(0, 12)
	var hits []mgHit
	for i := 0; i < n; i++ {
		from := g.Range(-3, qlen+2)
		to := from + g.Range(-2, 30)
		left := g.Range(-tlen-3, qlen)
		switch g.Intn(40) {
		case 0:
			left = qlen + g.Range(0, 4)
		case 1:
			from = qlen + k + g.Range(1, 5)
		}
		hits = append(hits, mgHit{from, to, -left})
	}
	if g.Chance(0.7) {
		sort.SliceStable(hits, func(i, j int) bool { return hits[i].from < hits[j].from })
	}
	return mgRender(self, k, e, off, gap, truns, qruns, hits)
}

func mgGen(g *hx.Gen) {
	n := g.Scale(6000, 120000)
	for i := 0; i < n && !g.Done(); i++ {
		if i%4 == 3 {
			g.Case(mgWild(g))
		} else {
			g.Case(mgFilterLike(g))
		}
	}
}

func mgShrink(input string) []string {
	f := hx.Fields(input)
	if len(f) != 9 || f[8] == "-" {
		return nil
	}
	hs := strings.Split(f[8], ";")
	var out []string
	for i := range hs {
		rest := append(append([]string{}, hs[:i]...), hs[i+1:]...)
		r := "-"
		if len(rest) > 0 {
			r = strings.Join(rest, ";")
		}
		g := append(append([]string{}, f[:8]...), r)
		out = append(out, strings.Join(g, " "))
	}
	return out
}

// ---- regenerated facts: the padding constant and fingerprints of the modelled functions ----

func palsMergeFacts(repo string) (string, error) {
	var sb strings.Builder
	sb.WriteString("namespace Biogo.Generated.PalsMerge\n\n")
	fset := token.NewFileSet()
	path := filepath.Join(repo, "align", "pals", "filter", "merge.go")
	file, err := parser.ParseFile(fset, path, nil, 0)
	if err != nil {
		return "", err
	}
	var constDecls []ast.Decl
	for _, d := range file.Decls {
		if gd, ok := d.(*ast.GenDecl); ok && gd.Tok == token.CONST {
			constDecls = append(constDecls, gd)
		}
	}
	reduced := &ast.File{Name: ast.NewIdent("filter"), Decls: constDecls}
	conf := types.Config{Importer: importer.Default(), Error: func(error) {}}
	pkg, _ := conf.Check("filter", fset, []*ast.File{reduced}, nil)
	if pkg == nil {
		return "", fmt.Errorf("cannot evaluate constants of merge.go")
	}
	c, ok := pkg.Scope().Lookup("diagonalPadding").(*types.Const)
	if !ok {
		return "", fmt.Errorf("constant diagonalPadding not found in merge.go")
	}
	v, exact := constant.Int64Val(c.Val())
	if !exact {
		return "", fmt.Errorf("diagonalPadding is not an int64")
	}
	fmt.Fprintf(&sb, "def diagonalPadding : Int := %d\n", v)
	for _, t := range []struct{ file, fn, lean string }{
		{"align/pals/filter/merge.go", "NewMerger", "fpNewMerger"},
		{"align/pals/filter/merge.go", "MergeFilterHit", "fpMergeFilterHit"},
		{"align/pals/filter/merge.go", "clipVertical", "fpClipVertical"},
		{"align/pals/filter/merge.go", "clipTrapezoids", "fpClipTrapezoids"},
		{"align/pals/filter/merge.go", "FinaliseMerge", "fpFinaliseMerge"},
		{"align/pals/filter/trapezoid.go", "prependFrontTo", "fpPrependFrontTo"},
		{"align/pals/filter/trapezoid.go", "join", "fpJoin"},
		{"align/pals/filter/trapezoid.go", "decapitate", "fpDecapitate"},
		{"align/pals/filter/trapezoid.go", "clip", "fpClip"},
		{"align/pals/filter/trapezoid.go", "Less", "fpTrapLess"},
	} {
		fs2 := token.NewFileSet()
		f2, err := parser.ParseFile(fs2, filepath.Join(repo, filepath.FromSlash(t.file)), nil, 0)
		if err != nil {
			return "", err
		}
		fp, err := c15FuncFingerprint(fs2, f2, t.fn)
		if err != nil {
			return "", err
		}
		fmt.Fprintf(&sb, "def %s : String := %q\n", t.lean, fp)
	}
	sb.WriteString("\nend Biogo.Generated.PalsMerge\n")
	return sb.String(), nil
}

func init() {
	hx.Register(&hx.Prop{ID: "C15", Part: "merge", Ops: []string{"mg"}, Gen: mgGen, Exec: mgExec, Shrink: mgShrink})
	hx.RegisterFacts(hx.FactGen{File: "PalsMergeFacts.lean", Gen: palsMergeFacts})
}
