package props

// C19 — Processor workers deliver each result once and stop cleanly; promises settle once.
//
// Inputs
//   pf <threads> <outcap> <incap> <ops> <close> <sched>      Processor under a forced schedule
//   pg <threads> <outcap> <incap> <ops;ops;…> <collectors> <close> <sched>
//                                                             the same with several producers / collectors
//   pu <threads> <gomaxprocs> <outcap> <incap> <ops> <mode>  Processor free running
//   mp <n> <threads> <maxchunk> <errAt>                       Map free running
//   pp <mrl> <calls> <sched>                                  Promise under a forced schedule
//
// ops:    comma list of v<k> (returns k), e<k> (returns k and an error), x<k> (panics), "-" = none
// sched:  one letter per step: digit = worker, p (q r) producer, c (d e) collector, s stopper,
//         w waiter (Processor); a, b, c, … = the calls in order (Promise)
// calls:  F<k>|Fn Fulfill, X<v>.<e> Fail (n = nil), R<k>|Rn Recover, B Break, W Wait
//
// Every case runs in a child process (`harness c19child`, a line server), because a
// `close of closed channel` in a worker goroutine kills the process.  The parent reports
// that as the observation `crash:<reason>`.

import (
	"bufio"
	"bytes"
	"errors"
	"fmt"
	"io"
	"os"
	"os/exec"
	"runtime"
	"sort"
	"strconv"
	"strings"
	"sync"
	"time"

	"github.com/biogo/biogo/concurrent"

	"verif/harness/hx"
)

// ---------------------------------------------------------------- operations

type c19op struct {
	kind byte
	k    int
}

type c19err struct{ k int }

func (e c19err) Error() string { return "e" + strconv.Itoa(e.k) }

func (o c19op) Operation() (interface{}, error) {
	switch o.kind {
	case 'e':
		return o.k, c19err{o.k}
	case 'x':
		panic(o.k)
	}
	return o.k, nil
}

func parseC19Ops(s string) []c19op {
	if s == "-" {
		return nil
	}
	var ops []c19op
	for _, t := range strings.Split(s, ",") {
		ops = append(ops, c19op{t[0], hx.Atoi(t[1:])})
	}
	return ops
}

// result as the property sees it: the operation's value, its error, or the recovered panic
func showC19Result(v interface{}, e error) string {
	if e != nil {
		if ue, ok := e.(c19err); ok {
			return "e" + strconv.Itoa(ue.k)
		}
		const pre = "concurrent: processor panic: "
		if strings.HasPrefix(e.Error(), pre) {
			return "x" + e.Error()[len(pre):]
		}
		return "?" + hx.Hex([]byte(e.Error()))
	}
	if k, ok := v.(int); ok {
		return "v" + strconv.Itoa(k)
	}
	return "?" + hx.Hex([]byte(fmt.Sprint(v)))
}

func joinOrDash(xs []string) string {
	if len(xs) == 0 {
		return "-"
	}
	return strings.Join(xs, ",")
}

// ---------------------------------------------------------------- forced Processor run

func procLetter(point string) byte {
	switch point {
	case "worker.start":
		return 'i'
	case "worker.result":
		return 'r'
	case "worker.token_returned":
		return 't'
	case "P":
		return 'P'
	}
	return '?'
}

// pf <threads> <outcap> <incap> <ops> <close> <sched>: one producer, one collector
func c19RunPF(f []string) string {
	return c19RunPG([]string{"pg", f[1], f[2], f[3], f[4], "1", f[5], f[6]})
}

// pg <threads> <outcap> <incap> <ops;ops;…> <collectors> <close> <sched>
//
// Producer p submits its operations in order with Process; producer 0 then waits for the other
// producers and closes the queue (if asked).  Every collector calls Result until it sees the
// result channel closed.  Schedule letters: digits = workers, p q r = producers, c d e =
// collectors, s = Stop, w = Wait.
func c19RunPG(f []string) string {
	threads, outcap, incap := hx.Atoi(f[1]), hx.Atoi(f[2]), hx.Atoi(f[3])
	var prods [][]c19op
	for _, part := range strings.Split(f[4], ";") {
		prods = append(prods, parseC19Ops(part))
	}
	np, nc := len(prods), hx.Atoi(f[5])
	wantClose := f[6] == "1"
	if threads < 1 || threads > runtime.NumCPU() || threads > 9 || np < 1 || np > 3 || nc < 1 || nc > 3 {
		return "skip"
	}
	var sched []int
	if f[7] != "-" {
		for _, ch := range f[7] {
			switch {
			case ch >= '0' && ch <= '9':
				sched = append(sched, int(ch-'0'))
			case ch >= 'p' && ch <= 'r':
				sched = append(sched, threads+int(ch-'p'))
			case ch >= 'c' && ch <= 'e':
				sched = append(sched, threads+np+int(ch-'c'))
			case ch == 's':
				sched = append(sched, threads+np+nc)
			case ch == 'w':
				sched = append(sched, threads+np+nc+1)
			}
		}
	}
	ctl := newController(threads + np + nc + 2)
	curCtl = ctl
	concurrent.VerifHook = ctl.hook
	defer func() { concurrent.VerifHook = nil; curCtl = nil }()

	// NewProcessor limits the workers to GOMAXPROCS; afterwards one P is enough (and much
	// faster): a forced schedule never needs two goroutines to run at the same instant
	setProcs(threads)
	queue := make(chan concurrent.Operator, incap)
	p := concurrent.NewProcessor(queue, outcap, threads)
	setProcs(1)
	var mu sync.Mutex
	res := make([][]string, nc)
	closed := make([]bool, nc)
	waited := false
	var others sync.WaitGroup // the producers other than producer 0
	others.Add(np - 1)
	for pi := 0; pi < np; pi++ {
		pi := pi
		ctl.spawn(threads+pi, func(park func()) {
			for _, o := range prods[pi] {
				park()
				p.Process(o)
			}
			if pi != 0 {
				others.Done()
				return
			}
			if wantClose {
				park()
				others.Wait()
				p.Close()
			}
		})
	}
	for ci := 0; ci < nc; ci++ {
		ci := ci
		ctl.spawn(threads+np+ci, func(park func()) {
			for {
				park()
				v, e := p.Result()
				if v == nil && e == nil {
					mu.Lock()
					closed[ci] = true
					mu.Unlock()
					return
				}
				mu.Lock()
				res[ci] = append(res[ci], showC19Result(v, e))
				mu.Unlock()
			}
		})
	}
	ctl.spawn(threads+np+nc, func(park func()) { park(); p.Stop() })
	ctl.spawn(threads+np+nc+1, func(park func()) {
		park()
		p.Wait()
		mu.Lock()
		waited = true
		mu.Unlock()
	})
	if !ctl.quiesce() {
		return "hang"
	}
	order := make([]int, 0, threads+np+nc+1)
	for i := 0; i < threads+np+nc; i++ {
		order = append(order, i)
	}
	order = append(order, threads+np+nc+1)
	trace, ok := ctl.runSchedule(sched, order, procLetter)
	if !ok {
		return "hang"
	}
	mu.Lock()
	var rs, cs []string
	for ci := 0; ci < nc; ci++ {
		rs = append(rs, joinOrDash(res[ci]))
		cs = append(cs, hx.B(closed[ci]))
	}
	obs := fmt.Sprintf("t=%s res=%s closed=%s wait=%s", strings.Join(trace, "/"), strings.Join(rs, ";"), strings.Join(cs, ""), hx.B(waited))
	mu.Unlock()
	// let go of what is still parked (the stopper); goroutines that are blocked stay blocked
	ctl.finish()
	ctl.quiesce()
	return obs
}

// ---------------------------------------------------------------- free running Processor

type yieldOp struct{ c19op }

func (o yieldOp) Operation() (interface{}, error) {
	runtime.Gosched()
	return o.c19op.Operation()
}

var curProcs = 0

func setProcs(n int) {
	if n < 1 {
		n = 1
	}
	if curProcs != n {
		runtime.GOMAXPROCS(n)
		curProcs = n
	}
}

func c19RunPU(f []string) string {
	threads, outcap, incap := hx.Atoi(f[1]), hx.Atoi(f[3]), hx.Atoi(f[4])
	setProcs(hx.Atoi(f[2]))
	ops := parseC19Ops(f[5])
	mode := hx.Atoi(f[6])
	done := make(chan string, 1)
	go func() {
		var queue chan concurrent.Operator
		var p *concurrent.Processor
		switch mode {
		case 1:
			// everything is queued and the queue closed before the workers exist
			queue = make(chan concurrent.Operator, len(ops)+1)
			for _, o := range ops {
				queue <- o
			}
			close(queue)
			p = concurrent.NewProcessor(queue, outcap, threads)
		default:
			queue = make(chan concurrent.Operator, incap)
			p = concurrent.NewProcessor(queue, outcap, threads)
			go func() {
				for _, o := range ops {
					if mode == 2 {
						p.Process(yieldOp{o})
					} else {
						p.Process(o)
					}
				}
				p.Close()
			}()
		}
		var res []string
		for {
			v, e := p.Result()
			if v == nil && e == nil {
				break
			}
			res = append(res, showC19Result(v, e))
		}
		p.Wait()
		sort.Slice(res, func(i, j int) bool {
			if res[i][0] != res[j][0] {
				return strings.IndexByte("vex", res[i][0]) < strings.IndexByte("vex", res[j][0])
			}
			a, _ := strconv.Atoi(res[i][1:])
			b, _ := strconv.Atoi(res[j][1:])
			return a < b
		})
		done <- fmt.Sprintf("res=%s closed=1 wait=1", joinOrDash(res))
	}()
	select {
	case o := <-done:
		return o
	case <-time.After(10 * time.Second):
		return "hang"
	}
}

// ---------------------------------------------------------------- Map

type c19span struct{ i, j, errAt int }

func (s c19span) Operation() (interface{}, error) {
	if s.errAt >= s.i && s.errAt < s.j {
		return nil, c19err{s.errAt}
	}
	return [2]int{s.i, s.j}, nil
}
func (s c19span) Slice(i, j int) concurrent.Mapper { return c19span{s.i + i, s.i + j, s.errAt} }
func (s c19span) Len() int                         { return s.j - s.i }

func c19RunMP(f []string) string {
	n, threads, maxChunk, errAt := hx.Atoi(f[1]), hx.Atoi(f[2]), hx.Atoi(f[3]), hx.Atoi(f[4])
	setProcs(runtime.NumCPU())
	done := make(chan string, 1)
	go func() {
		results, err := concurrent.Map(c19span{0, n, errAt}, threads, maxChunk)
		var cs [][2]int
		for _, r := range results {
			if c, ok := r.([2]int); ok {
				cs = append(cs, c)
			} else {
				cs = append(cs, [2]int{-1, -1})
			}
		}
		sort.Slice(cs, func(a, b int) bool { return cs[a][0] < cs[b][0] || (cs[a][0] == cs[b][0] && cs[a][1] < cs[b][1]) })
		var ss []string
		for _, c := range cs {
			ss = append(ss, fmt.Sprintf("%d-%d", c[0], c[1]))
		}
		done <- fmt.Sprintf("chunks=%s err=%s", joinOrDash(ss), hx.B(err != nil))
	}()
	select {
	case o := <-done:
		return o
	case <-time.After(10 * time.Second):
		return "hang"
	}
}

// ---------------------------------------------------------------- forced Promise run

func optInt(s string) interface{} {
	if s == "n" {
		return nil
	}
	return hx.Atoi(s)
}

func showOptVal(v interface{}) string {
	if v == nil {
		return "n"
	}
	if k, ok := v.(int); ok {
		return strconv.Itoa(k)
	}
	return "?" + hx.Hex([]byte(fmt.Sprint(v)))
}

func showPromiseResult(r concurrent.Result) string {
	e := "n"
	if r.Err != nil {
		if ue, ok := r.Err.(c19err); ok {
			e = strconv.Itoa(ue.k)
		} else if strings.Contains(r.Err.Error(), "already set immutable promise") {
			e = "S"
		} else {
			e = "?" + hx.Hex([]byte(r.Err.Error()))
		}
	}
	return showOptVal(r.Value) + "." + e
}

func showFulfillErr(err error) string {
	if err == nil {
		return "ok"
	}
	s := err.Error()
	switch {
	case strings.Contains(s, "cannot relay"):
		return "norelay"
	case strings.Contains(s, "attempt to fulfill failed promise"):
		return "failed"
	case strings.Contains(s, "already set immutable promise"):
		return "set"
	}
	return "?" + hx.Hex([]byte(s))
}

func promLetter(point string) byte {
	if point == "promise.wait.borrowed" {
		return 'b'
	}
	return 'P'
}

func c19RunPP(f []string) string {
	fl := f[1]
	var calls []string
	if f[2] != "-" {
		calls = strings.Split(f[2], ",")
	}
	n := len(calls)
	calls = append(calls, "W") // the probe, released only by the drain
	var sched []int
	if f[3] != "-" {
		for _, ch := range f[3] {
			if k := int(ch - 'a'); k >= 0 && k < n {
				sched = append(sched, k)
			}
		}
	}
	ctl := newController(len(calls))
	curCtl = ctl
	concurrent.VerifHook = ctl.hook
	defer func() { concurrent.VerifHook = nil; curCtl = nil }()

	setProcs(1)
	p := concurrent.NewPromise(fl[0] == '1', fl[1] == '1', fl[2] == '1')
	rets := make([]string, len(calls))
	var mu sync.Mutex
	for i, c := range calls {
		i, c := i, c
		rets[i] = "-"
		ctl.spawn(i, func(park func()) {
			park()
			var r string
			switch c[0] {
			case 'F':
				r = showFulfillErr(p.Fulfill(optInt(c[1:])))
			case 'X':
				ve := strings.SplitN(c[1:], ".", 2)
				var err error
				if ve[1] != "n" {
					err = c19err{hx.Atoi(ve[1])}
				}
				r = hx.B(p.Fail(optInt(ve[0]), err))
			case 'R':
				r = hx.B(p.Recover(optInt(c[1:])))
			case 'B':
				p.Break()
				r = "u"
			case 'W':
				r = showPromiseResult(<-p.Wait())
			}
			mu.Lock()
			rets[i] = r
			mu.Unlock()
		})
	}
	if !ctl.quiesce() {
		return "hang"
	}
	order := make([]int, len(calls))
	for i := range order {
		order[i] = i
	}
	trace, ok := ctl.runSchedule(sched, order, promLetter)
	if !ok {
		return "hang"
	}
	mu.Lock()
	obs := fmt.Sprintf("t=%s ret=%s", strings.Join(trace, "/"), strings.Join(rets, ","))
	mu.Unlock()
	ctl.finish()
	ctl.quiesce()
	return obs
}

// ---------------------------------------------------------------- child: a line server

func c19Child(args []string) int {
	sc := bufio.NewScanner(os.Stdin)
	sc.Buffer(make([]byte, 1<<20), 1<<26)
	w := bufio.NewWriter(os.Stdout)
	for sc.Scan() {
		line := sc.Text()
		f := hx.Fields(line)
		var obs string
		switch f[0] {
		case "pf":
			obs = c19RunPF(f)
		case "pg":
			obs = c19RunPG(f)
		case "pu":
			obs = c19RunPU(f)
		case "mp":
			obs = c19RunMP(f)
		case "pp":
			obs = c19RunPP(f)
		default:
			obs = "bad-op"
		}
		// goroutines that are blocked for ever (deadlocked cases, Map's workers) pile up and
		// slow the goroutine dumps down: ask for a fresh process
		tag := "K "
		if runtime.NumGoroutine() > 60 || obs == "hang" {
			tag = "R "
		}
		w.WriteString(tag + obs + "\n")
		w.Flush()
		if tag == "R " {
			return 0
		}
	}
	return 0
}

// ---------------------------------------------------------------- parent: talks to the child

type c19Proc struct {
	cmd    *exec.Cmd
	in     io.WriteCloser
	out    *bufio.Reader
	stderr *bytes.Buffer
	errEOF chan struct{}
}

var c19proc *c19Proc

func c19Start() *c19Proc {
	exe, err := os.Executable()
	if err != nil {
		hx.Fatalf("c19: %v", err)
	}
	cmd := exec.Command(exe, "c19child")
	cmd.Env = append(os.Environ(), "GOTRACEBACK=single")
	in, _ := cmd.StdinPipe()
	out, _ := cmd.StdoutPipe()
	errp, _ := cmd.StderrPipe()
	if err := cmd.Start(); err != nil {
		hx.Fatalf("c19: cannot start child: %v", err)
	}
	p := &c19Proc{cmd: cmd, in: in, out: bufio.NewReaderSize(out, 1<<16), stderr: &bytes.Buffer{}, errEOF: make(chan struct{})}
	go func() {
		io.Copy(p.stderr, errp)
		close(p.errEOF)
	}()
	return p
}

func (p *c19Proc) stop() {
	p.in.Close()
	p.cmd.Process.Kill()
	<-p.errEOF
	p.cmd.Wait()
}

func classifyCrash(stderr string) string {
	switch {
	case strings.Contains(stderr, "close of closed channel"):
		return "crash:close-of-closed-channel"
	case strings.Contains(stderr, "send on closed channel"):
		return "crash:send-on-closed-channel"
	case strings.Contains(stderr, "all goroutines are asleep"):
		return "crash:deadlock"
	}
	first := stderr
	if i := strings.IndexByte(first, '\n'); i >= 0 {
		first = first[:i]
	}
	return "crash:other:" + hx.Hex([]byte(first))
}

func c19Exec(input string) string {
	if c19proc == nil {
		c19proc = c19Start()
	}
	p := c19proc
	if _, err := io.WriteString(p.in, input+"\n"); err != nil {
		p.stop()
		c19proc = nil
		return "crash:child-unavailable"
	}
	type reply struct {
		line string
		err  error
	}
	ch := make(chan reply, 1)
	go func() {
		l, err := p.out.ReadString('\n')
		ch <- reply{l, err}
	}()
	select {
	case r := <-ch:
		if r.err != nil {
			// the child died while executing this input
			<-p.errEOF
			p.cmd.Wait()
			c19proc = nil
			return classifyCrash(p.stderr.String())
		}
		line := strings.TrimRight(r.line, "\n")
		if strings.HasPrefix(line, "R ") {
			<-p.errEOF
			p.cmd.Wait()
			c19proc = nil
		}
		if len(line) >= 2 {
			return line[2:]
		}
		return "bad-reply"
	case <-time.After(30 * time.Second):
		p.stop()
		c19proc = nil
		return "hang"
	}
}

// ---------------------------------------------------------------- generator

// all distinct orderings of a multiset of letters (counts[i] copies of letters[i])
func multisetPerms(letters []byte, counts []int, emit func(string) bool) {
	total := 0
	for _, c := range counts {
		total += c
	}
	buf := make([]byte, 0, total)
	var rec func() bool
	rec = func() bool {
		if len(buf) == total {
			return emit(string(buf))
		}
		for i := range letters {
			if counts[i] > 0 {
				counts[i]--
				buf = append(buf, letters[i])
				ok := rec()
				buf = buf[:len(buf)-1]
				counts[i]++
				if !ok {
					return false
				}
			}
		}
		return true
	}
	rec()
}

func randSched(g *hx.Gen, letters []byte, weights []int, n int) string {
	tot := 0
	for _, w := range weights {
		tot += w
	}
	if n == 0 {
		return "-"
	}
	b := make([]byte, n)
	for i := range b {
		r := g.Intn(tot)
		for j, w := range weights {
			if r < w {
				b[i] = letters[j]
				break
			}
			r -= w
		}
	}
	return string(b)
}

func randOps(g *hx.Gen, n int, special bool) string {
	if n == 0 {
		return "-"
	}
	var ss []string
	for i := 0; i < n; i++ {
		kind := "v"
		if special {
			switch g.Intn(8) {
			case 0:
				kind = "e"
			case 1:
				kind = "x"
			}
		}
		// values repeat now and then: results are a multiset
		k := i + 1
		if g.Chance(0.15) {
			k = g.Range(1, n)
		}
		ss = append(ss, kind+strconv.Itoa(k))
	}
	return strings.Join(ss, ",")
}

func c19Gen(g *hx.Gen) {
	gmp := runtime.GOMAXPROCS(0)
	// random configurations and schedules, one producer and one collector
	randPF := func(n int) {
		for k := 0; k < n && !g.Done(); k++ {
			t := g.Pick(1, 2, 2, 3, 3, 4)
			nops := g.Pick(0, 1, t-1, t, t+1, t+3, 2*t+1)
			if nops < 0 {
				nops = 0
			}
			letters := []byte{'p', 'c', 's', 'w'}
			weights := []int{3, 3, 0, 1}
			if g.Chance(0.15) {
				weights[2] = 1
			}
			for i := 0; i < t; i++ {
				letters = append(letters, byte('0'+i))
				weights = append(weights, 3)
			}
			g.Casef("pf %d %d %d %s %s %s", t, g.Pick(0, 0, 1, 2, 5), g.Pick(1, 1, 2, 4), randOps(g, nops, g.Chance(0.3)),
				hx.B(g.Chance(0.9)), randSched(g, letters, weights, g.Range(0, 4*(t+nops)+4)))
		}
	}
	randPG := func(n int) {
		// several producers and collectors: shuffled complete schedules (every actor gets the
		// steps it needs, in a random order) and random schedules, with and without Stop
		for k := 0; k < n && !g.Done(); k++ {
			t := g.Pick(1, 2, 2, 3)
			nprod := g.Pick(1, 2, 2, 3)
			ncoll := g.Pick(1, 2, 2, 3)
			var parts []string
			total := 0
			letters := []byte{}
			counts := []int{}
			weights := []int{}
			special := g.Chance(0.3)
			for pi := 0; pi < nprod; pi++ {
				cnt := g.Pick(0, 1, 1, 2, 3)
				if pi == 0 && g.Chance(0.5) {
					cnt = g.Pick(0, 1, 2, t+1)
				}
				total += cnt
				parts = append(parts, randOps(g, cnt, special))
				letters = append(letters, byte('p'+pi))
				c := cnt
				if pi == 0 {
					c++
				}
				counts = append(counts, c)
				weights = append(weights, 3)
			}
			for ci := 0; ci < ncoll; ci++ {
				letters = append(letters, byte('c'+ci))
				counts = append(counts, g.Range(1, total+1))
				weights = append(weights, 3)
			}
			for i := 0; i < t; i++ {
				letters = append(letters, byte('0'+i))
				counts = append(counts, g.Range(2, total+2))
				weights = append(weights, 3)
			}
			letters = append(letters, 'w')
			counts = append(counts, 1)
			weights = append(weights, 1)
			if g.Chance(0.15) {
				letters = append(letters, 's')
				counts = append(counts, 1)
				weights = append(weights, 1)
			}
			var sched string
			if g.Chance(0.5) {
				sched = shuffleMultiset(g, letters, counts)
			} else {
				sched = randSched(g, letters, weights, g.Range(0, 4*(t+total)+4))
			}
			if sched == "" {
				sched = "-"
			}
			g.Casef("pg %d %d %d %s %d %s %s", t, g.Pick(0, 0, 1, 2, 5), g.Pick(1, 1, 2, 4), strings.Join(parts, ";"),
				ncoll, hx.B(g.Chance(0.9)), sched)
		}
	}
	randPP := func(n int) {
		// all flag combinations, every kind of call (sequential and interleaved histories)
		callPool := []string{"F1", "F2", "F3", "Fn", "X4.7", "Xn.8", "X5.n", "Xn.n", "R6", "Rn", "B", "W", "W"}
		for k := 0; k < n && !g.Done(); k++ {
			fl := fmt.Sprintf("%d%d%d", g.Intn(2), g.Intn(2), g.Intn(2))
			nc := g.Range(1, 5)
			var cs []string
			letters := make([]byte, nc)
			weights := make([]int, nc)
			for i := 0; i < nc; i++ {
				cs = append(cs, callPool[g.Intn(len(callPool))])
				letters[i] = byte('a' + i)
				weights[i] = 1
			}
			var sched string
			if g.Chance(0.4) {
				// sequential history: each call runs to completion in order
				for i := 0; i < nc; i++ {
					sched += strings.Repeat(string(letters[i]), 2)
				}
			} else {
				sched = randSched(g, letters, weights, g.Range(0, 2*nc+1))
			}
			g.Casef("pp %s %s %s", fl, strings.Join(cs, ","), sched)
		}
	}
	// a first slice of the random forced schedules comes before the enumerations, so that a
	// widened run (thorough enumerations under a short budget) still reaches them
	npf, npg, npp := g.Scale(2500, 40000), g.Scale(2500, 50000), g.Scale(3000, 40000)
	randPP(800)
	randPG(500)
	randPF(500)
	// ---- Processor, forced: every ordering of the workers' start/exit steps and the close
	for t := 1; t <= 3; t++ {
		letters := []byte{'p'}
		counts := []int{1}
		for i := 0; i < t; i++ {
			letters = append(letters, byte('0'+i))
			counts = append(counts, 2)
		}
		multisetPerms(letters, counts, func(s string) bool {
			g.Casef("pf %d 0 1 - 1 %s", t, s)
			return !g.Done()
		})
	}
	// two collectors (and two producers), no or one operation: every ordering of the close, the
	// workers' start/exit steps and the collectors' receives
	multisetPerms([]byte{'p', '0', '1', 'c', 'd'}, []int{1, 2, 2, 1, 1}, func(s string) bool {
		g.Casef("pg 2 0 1 - 2 1 %s", s)
		return !g.Done()
	})
	multisetPerms([]byte{'p', 'q', '0', 'c', 'd'}, []int{1, 1, 4, 2, 2}, func(s string) bool {
		if (g.Thorough() && g.Chance(0.3)) || g.Chance(0.03) {
			g.Casef("pg 1 0 1 -;v1 2 1 %s", s)
		}
		return !g.Done()
	})
	// two workers, one or two operations, all orderings of worker steps around a fixed
	// producer/collector pattern
	for _, ops := range []string{"v1", "v1,v2", "v1,e2,v3"} {
		nops := strings.Count(ops, ",") + 1
		for _, oc := range []int{0, 1} {
			pre := strings.Repeat("p", nops+1)
			multisetPerms([]byte{'0', '1', 'c'}, []int{3, 3, nops}, func(s string) bool {
				if g.Thorough() || g.Chance(0.3) {
					g.Casef("pf 2 %d %d %s 1 %s", oc, nops, ops, pre+s)
				}
				return !g.Done()
			})
		}
	}
	// ---- Promise, forced: all orderings of the take/put steps for small sets of calls
	// (Fn = Fulfill(nil): a legal call; the message {nil, nil} counts as set)
	sets := []string{"F1,W", "W,F1", "F1,F2", "F1,W,F2", "W,F1,W", "F1,F2,W", "X2.7,W,F1", "F1,X2.7,W", "W,W,F1", "F1,W,X3.8",
		"Fn,F1", "Fn,F1,W", "Fn,W,F1", "F1,Fn,W", "Fn,X2.7,W", "W,W,X2.7", "W,X2.7,W"}
	for _, fl := range []string{"000", "001", "010"} {
		for _, set := range sets {
			n := strings.Count(set, ",") + 1
			letters := make([]byte, n)
			counts := make([]int, n)
			for i := range letters {
				letters[i] = byte('a' + i)
				counts[i] = 2
			}
			multisetPerms(letters, counts, func(s string) bool {
				if fl == "000" || g.Thorough() || g.Chance(0.5) {
					g.Casef("pp %s %s %s", fl, set, s)
				}
				return !g.Done()
			})
		}
	}
	// every flag combination, every kind of call (Recover, Break, nil values, Fail with a nil
	// error): all orderings of the two steps of each call; sampled in the quick tier
	allFlags := []string{"000", "001", "010", "011", "100", "101", "110", "111"}
	allSets := []string{"F1,B,W", "F1,W,B", "W,B,F1", "B,W,F1", "F1,B,F2", "F1,R2,W", "F1,W,R2", "X2.7,R3,W",
		"X2.7,Rn,W", "W,F1,Rn", "F1,Rn,F2", "F1,F2,W", "Fn,X5.7,W", "Xn.n,X5.7,W", "X5.n,F1,W", "W,W,B",
		"Fn,F1,W", "Fn,W,F2", "Fn,Fn,W", "Xn.n,F1,W", "W,W,X2.7", "W,W,R3", "W,W,Xn.n"}
	for _, fl := range allFlags {
		for _, set := range allSets {
			multisetPerms([]byte{'a', 'b', 'c'}, []int{2, 2, 2}, func(s string) bool {
				if g.Thorough() || g.Chance(0.2) {
					g.Casef("pp %s %s %s", fl, set, s)
				}
				return !g.Done()
			})
		}
		for _, set := range []string{"F1,W,B,W", "F1,R2,W,W", "X2.7,W,R3,F4", "W,F1,B,R2", "F1,F2,W,W"} {
			multisetPerms([]byte{'a', 'b', 'c', 'd'}, []int{2, 2, 2, 2}, func(s string) bool {
				if (g.Thorough() && g.Chance(0.25)) || g.Chance(0.01) {
					g.Casef("pp %s %s %s", fl, set, s)
				}
				return !g.Done()
			})
		}
	}
	// four goroutines: sampled in the quick tier, exhaustive in the thorough one
	for _, set := range []string{"F1,W,W,F2", "W,F1,F2,W", "F1,X2.7,W,W", "F1,F2,F3,W", "Fn,W,F1,W"} {
		letters := []byte{'a', 'b', 'c', 'd'}
		multisetPerms(letters, []int{2, 2, 2, 2}, func(s string) bool {
			if g.Thorough() || g.Chance(0.6) {
				g.Casef("pp 000 %s %s", set, s)
			}
			return !g.Done()
		})
	}
	// ---- Map
	for _, tr := range [][3]int{{0, 1, 1}, {0, 4, 7}, {1, 1, 1}, {1, 8, 1}, {7, 7, 1}, {8, 7, 1}, {6, 7, 100}, {64, 8, 8}, {65, 8, 8}, {63, 8, 8}, {10, 3, 100}, {100, 1, 100}, {100, 1, 99}, {5, 40, 3}} {
		g.Casef("mp %d %d %d -1", tr[0], tr[1], tr[2])
	}
	nm := g.Scale(1000, 20000)
	for k := 0; k < nm && !g.Done(); k++ {
		n := g.Pick(g.Range(0, 12), g.Range(0, 300), g.Range(0, 40))
		t := g.Pick(g.Range(1, gmp), g.Range(1, 2*gmp), 1, 2)
		mc := g.Pick(1, 2, g.Range(1, 10), g.Range(1, 400))
		errAt := -1
		if n > 0 && g.Chance(0.1) {
			errAt = g.Intn(n)
		}
		g.Casef("mp %d %d %d %d", n, t, mc, errAt)
	}
	// ---- Processor, free running: workers 1…GOMAXPROCS (and out-of-range requests), buffers,
	// 0 / fewer / equal / more operations than workers
	nu := g.Scale(4000, 100000)
	for k := 0; k < nu && !g.Done(); k++ {
		t := g.Pick(g.Range(1, gmp), g.Range(1, gmp), 1, 2, gmp, 0, gmp+3)
		eff := t
		if eff < 1 || eff > gmp {
			eff = gmp
		}
		var nops int
		switch g.Intn(5) {
		case 0:
			nops = 0
		case 1:
			nops = g.Range(0, eff-1)
		case 2:
			nops = eff
		case 3:
			nops = eff + g.Range(1, 2*eff)
		default:
			nops = g.Range(0, 60)
		}
		mode := g.Pick(0, 0, 1, 1, 2)
		g.Casef("pu %d %d %d %d %s %d", t, gmp, g.Pick(0, 0, 1, 2, 7, 64), g.Pick(0, 1, 3, 16), randOps(g, nops, g.Chance(0.1)), mode)
	}
	// ---- the rest of the random forced schedules last (they take most of the time)
	randPP(npp - 800)
	randPG(npg - 500)
	randPF(npf - 500)
}

func shuffleMultiset(g *hx.Gen, letters []byte, counts []int) string {
	var b []byte
	for i, l := range letters {
		for j := 0; j < counts[i]; j++ {
			b = append(b, l)
		}
	}
	g.Shuffle(len(b), func(i, j int) { b[i], b[j] = b[j], b[i] })
	return string(b)
}

var _ = errors.New

func init() {
	hx.Register(&hx.Prop{ID: "C19", Gen: c19Gen, Exec: c19Exec, NoRecover: true})
	hx.RegisterMode("c19child", c19Child)
}
