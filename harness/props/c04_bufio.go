package props

// C04, part "bufio" — the byte-level model of bufio.Reader (lean/Biogo/Go/Bufio.lean) against
// the real bufio.Reader of the Go toolchain the harness is built with.
//
// Input
//   buf <size> <src> <ops> <hex data>
//
//   size  argument of bufio.NewReaderSize (the reader makes it at least 16)
//   src   the underlying io.Reader over the data:
//           b            bytes.Reader
//           1            iotest.OneByteReader(bytes.Reader)
//           h            iotest.HalfReader(bytes.Reader)
//           d            iotest.DataErrReader(bytes.Reader)    (io.EOF together with the last bytes)
//           c<n>         at most n bytes per Read
//           s<w>:<e>:<n1,n2,…>   scripted: the k-th Read delivers at most n_(k mod len) bytes
//                        (0 = an empty read with a nil error); w=1: the final error comes
//                        together with the last bytes; e=0: the final error is io.EOF,
//                        e>0: another error (code e)
//   ops   a non-empty word over L (ReadLine), B (ReadBytes('\n')), S (ReadSlice('\n')); it is
//         repeated until the second call that returns an error other than ErrBufferFull, or
//         len(data)+4 calls
//
// Observation: one token per call,  L:<hex line>:<isPrefix>:<err>  B:<hex>:<err>  S:<hex>:<err>,
// err one of - EOF FULL NOPROG E<code>.

import (
	"bufio"
	"bytes"
	"errors"
	"fmt"
	"io"
	"strings"
	"testing/iotest"

	"verif/harness/hx"
)

func init() {
	hx.Register(&hx.Prop{ID: "C04", Part: "bufio", Ops: []string{"buf"}, Gen: c04bufGen, Exec: c04bufExec})
}

type c04bufCoded struct{ code int }

func (e c04bufCoded) Error() string { return fmt.Sprintf("coded error %d", e.code) }

// the scripted reader: exactly Biogo.Go.Bufio.Src
type c04bufScript struct {
	rest     []byte
	script   []int
	withData bool
	fin      error
	calls    int
}

func (s *c04bufScript) Read(p []byte) (int, error) {
	k := s.calls
	s.calls++
	if len(s.rest) == 0 {
		return 0, s.fin
	}
	n := s.script[k%len(s.script)]
	if n > len(p) {
		n = len(p)
	}
	if n > len(s.rest) {
		n = len(s.rest)
	}
	copy(p, s.rest[:n])
	s.rest = s.rest[n:]
	if len(s.rest) == 0 && s.withData {
		return n, s.fin
	}
	return n, nil
}

func c04bufSource(tok string, data []byte) io.Reader {
	switch {
	case tok == "b":
		return bytes.NewReader(data)
	case tok == "1":
		return iotest.OneByteReader(bytes.NewReader(data))
	case tok == "h":
		return iotest.HalfReader(bytes.NewReader(data))
	case tok == "d":
		return iotest.DataErrReader(bytes.NewReader(data))
	case tok[0] == 'c':
		return &sioChunkReader{r: bytes.NewReader(data), n: hx.Atoi(tok[1:])}
	case tok[0] == 's':
		f := strings.Split(tok[1:], ":")
		s := &c04bufScript{rest: append([]byte(nil), data...), script: hx.ParseInts(f[2]), withData: f[0] == "1", fin: io.EOF}
		if e := hx.Atoi(f[1]); e != 0 {
			s.fin = c04bufCoded{e}
		}
		return s
	}
	panic("c04buf: bad source " + tok)
}

func c04bufErr(err error) string {
	var c c04bufCoded
	switch {
	case err == nil:
		return "-"
	case err == io.EOF:
		return "EOF"
	case err == bufio.ErrBufferFull:
		return "FULL"
	case err == io.ErrNoProgress:
		return "NOPROG"
	case errors.As(err, &c):
		return fmt.Sprintf("E%d", c.code)
	}
	return "other-" + hx.Hex([]byte(err.Error()))
}

func c04bufExec(input string) string {
	f := hx.Fields(input)
	data := hx.Unhex(f[4])
	rd := bufio.NewReaderSize(c04bufSource(f[2], data), hx.Atoi(f[1]))
	ops := f[3]
	var out []string
	errs := 0
	for i := 0; i < len(data)+4 && errs < 2; i++ {
		var err error
		switch ops[i%len(ops)] {
		case 'L':
			line, isPrefix, e := rd.ReadLine()
			err = e
			out = append(out, "L:"+hx.Hex(line)+":"+hx.B(isPrefix)+":"+c04bufErr(e))
		case 'B':
			line, e := rd.ReadBytes('\n')
			err = e
			out = append(out, "B:"+hx.Hex(line)+":"+c04bufErr(e))
		case 'S':
			line, e := rd.ReadSlice('\n')
			err = e
			out = append(out, "S:"+hx.Hex(line)+":"+c04bufErr(e))
		default:
			panic("c04buf: bad op")
		}
		if err != nil && err != bufio.ErrBufferFull {
			errs++
		}
	}
	return strings.Join(out, " ")
}

// ---- generator ----

// one physical line of n bytes of content (no LF), with CRs where they matter: at the end,
// at the positions that fall on a buffer boundary, or sprinkled
func c04bufLine(g *hx.Gen, n, size int) []byte {
	b := make([]byte, n)
	for i := range b {
		b[i] = byte('a' + g.Intn(3))
	}
	switch g.Intn(6) {
	case 0: // CR at every position that ends a buffer
		for i := size - 1; i < n; i += size {
			b[i] = '\r'
		}
	case 1: // CR at the positions that end a buffer after one CR adjustment
		for i := size - 1; i < n; i += size - 1 {
			b[i] = '\r'
		}
	case 2: // sprinkled
		for i := range b {
			if g.Chance(0.2) {
				b[i] = '\r'
			}
		}
	case 3: // around the first boundary
		for _, i := range []int{size - 2, size - 1, size, size + 1} {
			if i >= 0 && i < n && g.Chance(0.6) {
				b[i] = '\r'
			}
		}
	}
	if n > 0 && g.Chance(0.2) {
		b[n-1] = '\r'
	}
	return b
}

func c04bufData(g *hx.Gen, size int) []byte {
	var buf bytes.Buffer
	nl := g.Pick(1, 1, 1, 2, 2, 3, 5)
	for i := 0; i < nl; i++ {
		var n int
		switch g.Intn(5) {
		case 0:
			n = g.Pick(0, 0, 1, 2, 3)
		case 1, 2:
			n = g.Pick(1, 1, 1, 2, 2, 3)*size + g.Pick(-3, -2, -1, 0, 0, 1, 2, 3)
		case 3: // multiples of size-1 (the stride after a CR adjustment)
			n = g.Pick(1, 2, 3)*(size-1) + g.Pick(-1, 0, 1, 2)
		default:
			n = g.Range(0, 3*size)
		}
		if n < 0 {
			n = 0
		}
		buf.Write(c04bufLine(g, n, size))
		if i < nl-1 || g.Chance(0.5) {
			if g.Chance(0.4) {
				buf.WriteByte('\r')
			}
			buf.WriteByte('\n')
		}
	}
	return buf.Bytes()
}

func c04bufSrcTok(g *hx.Gen, big bool) string {
	switch g.Intn(10) {
	case 0:
		return "b"
	case 1:
		if big && g.Chance(0.9) {
			return "c4096"
		}
		return "1"
	case 2:
		return "h"
	case 3:
		return "d"
	case 4:
		return fmt.Sprintf("c%d", g.Pick(1, 2, 3, 7, 15, 16, 17, 31, 100, 4095, 4096, 4097))
	default:
		n := g.Pick(1, 1, 2, 3, 5)
		sc := make([]int, n)
		for i := range sc {
			sc[i] = g.Pick(1, 1, 2, 3, 5, 8, 15, 16, 17, 40, 5000)
			if big {
				sc[i] = g.Pick(100, 1000, 4095, 4096, 4097, 5000, 10000)
			}
			if g.Chance(0.08) {
				sc[i] = 0
			}
		}
		if g.Chance(0.02) {
			sc = []int{0} // never any progress: io.ErrNoProgress
		}
		e := 0
		if g.Chance(0.15) {
			e = g.Pick(1, 2, 7)
		}
		return fmt.Sprintf("s%s:%d:%s", hx.B(g.Chance(0.5)), e, hx.Ints(sc))
	}
}

func c04bufOps(g *hx.Gen) string {
	switch g.Intn(8) {
	case 0, 1, 2:
		return "L"
	case 3, 4:
		return "B"
	case 5:
		return "S"
	}
	n := g.Pick(2, 3, 5)
	b := make([]byte, n)
	for i := range b {
		b[i] = "LBS"[g.Intn(3)]
	}
	return string(b)
}

func c04bufGen(g *hx.Gen) {
	// the buffer-boundary family at the default size: content lengths 4094..4098 and
	// 8190..8194, LF / CRLF / unterminated, a CR as last byte of the buffer or not
	for _, n := range []int{4094, 4095, 4096, 4097, 4098, 8190, 8191, 8192, 8193, 8194} {
		for _, term := range []string{"\n", "\r\n", ""} {
			for _, cr := range []int{-1, 4095, 4094} {
				for _, src := range []string{"b", "h", "d", "c4096", "s1:0:5000", "s0:0:1000,1"} {
					line := bytes.Repeat([]byte{'x'}, n)
					if cr >= 0 && cr < n {
						line[cr] = '\r'
					}
					data := append(append([]byte("ab\n"), line...), term...)
					if g.Chance(0.3) {
						data = append(data, "tail"...)
					}
					g.Casef("buf 4096 %s %s %s", src, sioPickS(g, "L", "L", "B", "S"), hx.Hex(data))
				}
			}
		}
	}
	g.Casef("buf 4096 1 L %s", hx.Hex(append(bytes.Repeat([]byte{'x'}, 4095), "\r\nab"...)))
	n := g.Scale(6000, 300000)
	for k := 0; k < n && !g.Done(); k++ {
		size := g.Pick(0, 16, 16, 16, 16, 17, 17, 20, 32, 33, 64)
		big := false
		if g.Chance(0.01) {
			size, big = g.Pick(1000, 4096), true
		}
		eff := size
		if eff < 16 {
			eff = 16
		}
		g.Casef("buf %d %s %s %s", size, c04bufSrcTok(g, big), c04bufOps(g), hx.Hex(c04bufData(g, eff)))
	}
}
