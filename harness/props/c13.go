package props

// C13 — I/O failures are never hidden; no temporary files remain.
//
// Input        x <conc> <chunk> <autoClear> <autoClean> <i|s> <ops> <sched> <fault>
//              fault = - or <point>:<n>: the n-th execution (from 0) of tempfile | encode | sync |
//              seek | fdecode | pdecode | close | remove fails (the hook at that point returns an
//              error which the code treats as the error of that operation)
// Observation  <flags> <status> <disk> <dir> <dirAfterCleanUp> <out>*      (see morass_ctl.go)

import (
	"fmt"
	"strings"
	"time"

	"verif/harness/hx"
)

// Close/Remove failures inside Clear are outside the statement (and a hook cannot undo a real
// Close), so they are not generated; the model still has the two points.
var c13Points = []string{"tempfile", "encode", "sync", "seek", "fdecode", "pdecode"}

func c13Line(conc bool, c int, ac, aclean bool, ty string, ops []string, sched []int, fault string) string {
	return fmt.Sprintf("x %s %d %s %s %s %s %s %s", hx.B(conc), c, hx.B(ac), hx.B(aclean), ty, strings.Join(ops, ","), hx.Ints(sched), fault)
}

func c13Exec(input string) string {
	f := hx.Fields(input)
	if f[0] != "x" {
		panic("c13: bad input " + input)
	}
	return morassRunWork(parseMWork(f[1:]))
}

// c13Sched walks the protocol simulator with a fixed policy up to quiescence.
// policy 0: a spawned writer runs to completion at once; 1: the caller runs until it blocks;
// 2: random.
func c13Sched(g *hx.Gen, c int, ac bool, ops []string, policy int) []int {
	s := newSim(c, ac, ops)
	var sched []int
	for steps := 0; steps < 600 && !s.quiescent(); steps++ {
		var en []int
		for a := 0; a <= len(s.ws); a++ {
			if s.clone().step(a) {
				en = append(en, a)
			}
		}
		if len(en) == 0 {
			break
		}
		a := en[0]
		switch policy {
		case 0:
			if len(en) > 1 || en[0] != 0 {
				a = en[len(en)-1]
				if en[0] != 0 {
					a = en[0]
				} else {
					a = en[1]
				}
			}
		case 1:
			a = en[0]
		default:
			a = en[g.Intn(len(en))]
		}
		s.step(a)
		sched = append(sched, a)
	}
	return sched
}

func c13Gen(g *hx.Gen) {
	// (0) file-system residue, enumerated first so that a time budget never cuts it off: both
	// modes x AutoClear x AutoClean x (cycle stays in memory | spills) x (full | partial drain),
	// one- and two-cycle histories (with AutoClean only the last cycle is drained to EOF)
	for _, conc := range []bool{false, true} {
		for _, ac := range []bool{false, true} {
			for _, aclean := range []bool{false, true} {
				for _, c := range []int{1, 3} {
					for _, counts := range [][]int{{0}, {c - 1}, {c}, {2*c + 1}, {c - 1, 2*c + 1}, {2*c + 1, c - 1}, {c - 1, c - 1}} {
						for _, full := range []bool{true, false} {
							var ops []string
							for i, cnt := range counts {
								if cnt < 0 {
									cnt = 0
								}
								last := i == len(counts)-1
								pulls := cnt + 1 // drain to io.EOF
								if (last && !full) || (!last && aclean) {
									pulls = cnt / 2 // stop before io.EOF (with AutoClean the directory must survive)
								}
								ops = c11Cycle(g, ops, c, "i", cnt, pulls, !last, 50)
							}
							g.Case(c13Line(conc, c, ac, aclean, "i", ops, nil, "-"))
						}
					}
				}
			}
		}
	}
	// (1) every single I/O operation of a multi-chunk workload as the failing one, both modes
	type wl struct {
		c   int
		ops []string
	}
	var wls []wl
	distinct := func(ty string, n, pulls int, clear bool, ops []string) []string {
		// distinct keys: which file is exhausted first (and so the residue) is then determined
		base := g.Intn(50)
		for _, i := range g.Perm(n) {
			if ty == "s" {
				ops = append(ops, fmt.Sprintf("p%d:%d", base+3*i, g.Intn(3)))
			} else {
				ops = append(ops, fmt.Sprintf("p%d", base+3*i))
			}
		}
		ops = append(ops, "f")
		for i := 0; i < pulls; i++ {
			ops = append(ops, "l")
		}
		if clear {
			ops = append(ops, "c")
		}
		return ops
	}
	wls = append(wls, wl{2, distinct("i", 5, 6, true, nil)})
	wls = append(wls, wl{2, distinct("s", 3, 4, true, distinct("s", 5, 2, true, nil))})
	if g.Thorough() {
		wls = append(wls, wl{3, distinct("i", 17, 18, true, nil)})
	}
	for _, w := range wls {
		ty := "i"
		if strings.Contains(w.ops[0], ":") {
			ty = "s"
		}
		npush := 0
		for _, o := range w.ops {
			if o[0] == 'p' {
				npush++
			}
		}
		for _, pt := range c13Points {
			for k := 0; k <= npush && !g.Done(); k++ {
				fault := fmt.Sprintf("%s:%d", pt, k)
				ac := k%2 == 1
				g.Case(c13Line(false, w.c, ac, false, ty, w.ops, nil, fault))
				for pol := 0; pol < 2; pol++ {
					g.Case(c13Line(true, w.c, ac, false, ty, w.ops, c13Sched(g, w.c, ac, w.ops, pol), fault))
				}
			}
		}
	}
	// (2) (fault, ordering) pairs in concurrent mode: random walks, random single fault
	n := g.Scale(250, 20000)
	for k := 0; k < n && !g.Done(); k++ {
		c := g.Pick(1, 2, 2, 3)
		cnt := g.Range(1, 4)*c + g.Pick(0, 1, c-1)
		ty := "i"
		if g.Chance(0.5) {
			ty = "s"
		}
		ac := g.Chance(0.4)
		var ops []string
		cycles := g.Pick(1, 1, 2, 2, 3)
		total := 0
		for cy := 0; cy < cycles; cy++ {
			pulls := cnt + 1
			if g.Chance(0.25) {
				pulls = g.Intn(cnt + 1)
			}
			ops = c11Cycle(g, ops, c, ty, cnt, pulls, true, g.Pick(4, 50))
			total += cnt
			cnt = g.Pick(cnt, g.Range(1, 3)*c+g.Pick(0, 1), g.Intn(c+1))
		}
		if g.Chance(0.2) { // a rejected Push (another type) is a no-op, with faults too
			i := g.Intn(len(ops) + 1)
			ops = append(ops[:i:i], append([]string{"x"}, ops[i:]...)...)
		}
		// the fault may fall into any cycle of the history
		fault := fmt.Sprintf("%s:%d", c13Points[g.Intn(len(c13Points))], g.Intn(total+1))
		g.Case(c13Line(true, c, ac, false, ty, ops, c13Sched(g, c, ac, ops, 2), fault))
	}
	// (3) residue of the temporary directory after fault-free histories, both modes
	n = g.Scale(400, 30000)
	for k := 0; k < n && !g.Done(); k++ {
		c := g.Pick(1, 2, 3, 4)
		ty := "i"
		if g.Chance(0.3) {
			ty = "s"
		}
		ac, aclean := g.Chance(0.5), g.Chance(0.4)
		cycles := g.Range(1, 3)
		if aclean {
			cycles = 1 // the directory is gone after the first drained cycle
		}
		var ops []string
		for cy := 0; cy < cycles; cy++ {
			cnt := c11Count(g, c)
			pulls := cnt + 1
			if g.Chance(0.3) {
				pulls = g.Intn(cnt + 1)
			}
			clear := cy < cycles-1 || g.Chance(0.3)
			if aclean {
				clear = false
			}
			ops = c11Cycle(g, ops, c, ty, cnt, pulls, clear, g.Pick(4, 50))
		}
		if g.Chance(0.15) {
			i := g.Intn(len(ops) + 1)
			ops = append(ops[:i:i], append([]string{"x"}, ops[i:]...)...)
		}
		g.Case(c13Line(g.Chance(0.5), c, ac, aclean, ty, ops, nil, "-"))
	}
}

func init() {
	// a workload is replayed with an 800 ms watchdog per step when a step looked blocked: on a
	// loaded machine a long forced schedule can exceed the default 20 s
	hx.Register(&hx.Prop{ID: "C13", Gen: c13Gen, Exec: c13Exec, Timeout: 90 * time.Second})
}
