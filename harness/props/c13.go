package props

// C13 — I/O failures are never hidden; no temporary files remain.
//
// Input        x <conc> <chunk> <autoClear> <autoClean> <i|s> <ops> <sched> <fault> [<opts>]
//              fault = - or <point>:<n>(+<point>:<n>)*: a list of faults armed one after the other;
//              the armed one fires at the n-th execution (from 0) of tempfile | encode | sync |
//              seek | fdecode | pdecode | close | remove counted from the moment it became armed
//              (start of the run / firing of its predecessor); the hook at that point returns an
//              error which the code treats as the error of that operation
//              ops may end with u: the caller's last call is CleanUp (abandoned sorter)
//              opts = r: the concurrent caller, too, recovers with Clear after a reported error
// Observation  <flags> <status> <disk> <dir> <dirAfterCleanUp> <out>*      (see morass_ctl.go)

import (
	"fmt"
	"strings"
	"time"

	"verif/harness/hx"
)

// Close/Remove failures inside Clear are outside the statement (and a hook cannot undo a real
// Close), so they are not generated; the model still has the two points.
var c13Points = []string{"tempfile", "encode", "sync", "seek", "fdecode", "pdecode"}

func c13Line(conc bool, c int, ac, aclean bool, ty string, ops []string, sched []int, fault string) string {
	return fmt.Sprintf("x %s %d %s %s %s %s %s %s", hx.B(conc), c, hx.B(ac), hx.B(aclean), ty, strings.Join(ops, ","), hx.Ints(sched), fault)
}

func c13LineR(conc bool, c int, ac, aclean bool, ty string, ops []string, sched []int, fault string) string {
	return c13Line(conc, c, ac, aclean, ty, ops, sched, fault) + " r"
}

// c13SchedF walks the fault-aware simulator: policy 0 = a spawned writer runs to its end at once
// (so every writer has ended when an error is reported and when the caller recovers with Clear),
// 1 = the caller runs until it blocks, then the writers, 2 = random.  ok = false when a Clear
// after a reported error would run while a writer is alive (the model is not tied to the code
// there: notes/C13.md).
func c13SchedF(g *hx.Gen, s *simS, policy int) (sched []int, ok bool) {
	for steps := 0; steps < 900; steps++ {
		var en []int
		for a := 0; a <= len(s.ws); a++ {
			if s.clone().step(a) {
				en = append(en, a)
			}
		}
		if len(en) == 0 {
			break
		}
		a := en[0]
		switch policy {
		case 0:
			if en[0] == 0 && len(en) > 1 {
				a = en[1]
			}
		case 1:
		default:
			a = en[g.Intn(len(en))]
		}
		s.step(a)
		sched = append(sched, a)
	}
	return sched, !s.clearedAlive
}

func c13Exec(input string) string {
	f := hx.Fields(input)
	if f[0] != "x" {
		panic("c13: bad input " + input)
	}
	return morassRunWork(parseMWork(f[1:]))
}

// c13Sched walks the protocol simulator with a fixed policy up to quiescence.
// policy 0: a spawned writer runs to completion at once; 1: the caller runs until it blocks;
// 2: random.
func c13Sched(g *hx.Gen, c int, ac bool, ops []string, policy int) []int {
	s := newSim(c, ac, ops)
	var sched []int
	for steps := 0; steps < 600 && !s.quiescent(); steps++ {
		var en []int
		for a := 0; a <= len(s.ws); a++ {
			if s.clone().step(a) {
				en = append(en, a)
			}
		}
		if len(en) == 0 {
			break
		}
		a := en[0]
		switch policy {
		case 0:
			if len(en) > 1 || en[0] != 0 {
				a = en[len(en)-1]
				if en[0] != 0 {
					a = en[0]
				} else {
					a = en[1]
				}
			}
		case 1:
			a = en[0]
		default:
			a = en[g.Intn(len(en))]
		}
		s.step(a)
		sched = append(sched, a)
	}
	return sched
}

func c13Gen(g *hx.Gen) {
	// (0) file-system residue, enumerated first so that a time budget never cuts it off: both
	// modes x AutoClear x AutoClean x (cycle stays in memory | spills) x (full | partial drain),
	// one- and two-cycle histories (with AutoClean only the last cycle is drained to EOF)
	for _, conc := range []bool{false, true} {
		for _, ac := range []bool{false, true} {
			for _, aclean := range []bool{false, true} {
				for _, c := range []int{1, 3} {
					for _, counts := range [][]int{{0}, {c - 1}, {c}, {2*c + 1}, {c - 1, 2*c + 1}, {2*c + 1, c - 1}, {c - 1, c - 1}} {
						for _, full := range []bool{true, false} {
							var ops []string
							for i, cnt := range counts {
								if cnt < 0 {
									cnt = 0
								}
								last := i == len(counts)-1
								pulls := cnt + 1 // drain to io.EOF
								if (last && !full) || (!last && aclean) {
									pulls = cnt / 2 // stop before io.EOF (with AutoClean the directory must survive)
								}
								ops = c11Cycle(g, ops, c, "i", cnt, pulls, !last, 50)
							}
							g.Case(c13Line(conc, c, ac, aclean, "i", ops, nil, "-"))
						}
					}
				}
			}
		}
	}
	// (1) every single I/O operation of a multi-chunk workload as the failing one, both modes
	type wl struct {
		c   int
		ops []string
	}
	var wls []wl
	c13Recovery(g)
	c13Abandon(g)
	distinct := func(ty string, n, pulls int, clear bool, ops []string) []string {
		// distinct keys: which file is exhausted first (and so the residue) is then determined
		base := g.Intn(50)
		for _, i := range g.Perm(n) {
			if ty == "s" {
				ops = append(ops, fmt.Sprintf("p%d:%d", base+3*i, g.Intn(3)))
			} else {
				ops = append(ops, fmt.Sprintf("p%d", base+3*i))
			}
		}
		ops = append(ops, "f")
		for i := 0; i < pulls; i++ {
			ops = append(ops, "l")
		}
		if clear {
			ops = append(ops, "c")
		}
		return ops
	}
	wls = append(wls, wl{2, distinct("i", 5, 6, true, nil)})
	wls = append(wls, wl{2, distinct("s", 3, 4, true, distinct("s", 5, 2, true, nil))})
	if g.Thorough() {
		wls = append(wls, wl{3, distinct("i", 17, 18, true, nil)})
	}
	for _, w := range wls {
		ty := "i"
		if strings.Contains(w.ops[0], ":") {
			ty = "s"
		}
		npush := 0
		for _, o := range w.ops {
			if o[0] == 'p' {
				npush++
			}
		}
		for _, pt := range c13Points {
			for k := 0; k <= npush && !g.Done(); k++ {
				fault := fmt.Sprintf("%s:%d", pt, k)
				ac := k%2 == 1
				g.Case(c13Line(false, w.c, ac, false, ty, w.ops, nil, fault))
				for pol := 0; pol < 2; pol++ {
					g.Case(c13Line(true, w.c, ac, false, ty, w.ops, c13Sched(g, w.c, ac, w.ops, pol), fault))
				}
			}
		}
	}
	// (2) (fault, ordering) pairs in concurrent mode: random walks, random single fault
	n := g.Scale(250, 20000)
	for k := 0; k < n && !g.Done(); k++ {
		c := g.Pick(1, 2, 2, 3, 1, 2, 3, g.Pick(5, 6, 7, 10))
		cnt := g.Range(1, 4)*c + g.Pick(0, 1, c-1)
		if c > 4 {
			cnt = g.Range(1, 2)*c + g.Pick(0, 1, c-1)
		}
		ty := "i"
		if g.Chance(0.5) {
			ty = "s"
		}
		ac := g.Chance(0.4)
		var ops []string
		cycles := g.Pick(1, 1, 2, 2, 3)
		total := 0
		for cy := 0; cy < cycles; cy++ {
			pulls := cnt + 1
			if g.Chance(0.25) {
				pulls = g.Intn(cnt + 1)
			}
			ops = c11Cycle(g, ops, c, ty, cnt, pulls, true, g.Pick(4, 50))
			total += cnt
			cnt = g.Pick(cnt, g.Range(1, 3)*c+g.Pick(0, 1), g.Intn(c+1))
		}
		if g.Chance(0.2) { // a rejected Push (another type) is a no-op, with faults too
			i := g.Intn(len(ops) + 1)
			ops = append(ops[:i:i], append([]string{"x"}, ops[i:]...)...)
		}
		// the fault may fall into any cycle of the history
		fault := fmt.Sprintf("%s:%d", c13Points[g.Intn(len(c13Points))], g.Intn(total+1))
		g.Case(c13Line(true, c, ac, false, ty, ops, c13Sched(g, c, ac, ops, 2), fault))
	}
	// (3) residue of the temporary directory after fault-free histories, both modes
	n = g.Scale(400, 30000)
	for k := 0; k < n && !g.Done(); k++ {
		c := g.Pick(1, 2, 3, 4, 1, 2, 3, 4, g.Pick(5, 6, 7, 10))
		ty := "i"
		if g.Chance(0.3) {
			ty = "s"
		}
		ac, aclean := g.Chance(0.5), g.Chance(0.4)
		cycles := g.Range(1, 3)
		if aclean {
			cycles = 1 // the directory is gone after the first drained cycle
		}
		var ops []string
		for cy := 0; cy < cycles; cy++ {
			cnt := c11Count(g, c)
			pulls := cnt + 1
			if g.Chance(0.3) {
				pulls = g.Intn(cnt + 1)
			}
			clear := cy < cycles-1 || g.Chance(0.3)
			if aclean {
				clear = false
			}
			ops = c11Cycle(g, ops, c, ty, cnt, pulls, clear, g.Pick(4, 50))
		}
		if g.Chance(0.15) {
			i := g.Intn(len(ops) + 1)
			ops = append(ops[:i:i], append([]string{"x"}, ops[i:]...)...)
		}
		g.Case(c13Line(g.Chance(0.5), c, ac, aclean, ty, ops, nil, "-"))
	}
}

// c13Count: how often each fault point is executed by a fault-free run of ops (sequential).
func c13Counts(c int, ops []string) map[string]int {
	n := map[string]int{}
	// count through a private fault list that never fires: one probe per point
	for _, pt := range c13Points {
		t := newSimF(false, c, false, ops, pt+":1000000", false)
		for steps := 0; steps < 5000; steps++ {
			moved := false
			for a := len(t.ws); a >= 0; a-- {
				if t.step(a) {
					moved = true
					break
				}
			}
			if !moved {
				break
			}
		}
		n[pt] = 1000000 - t.faults[0].n
	}
	return n
}

// c13Recovery: (4) two faults.  The first fires in the first cycle and is reported; the caller
// makes no call until the Clear that closes that cycle; the second fault is every I/O operation
// of the next cycle in turn (its count starts when the first has fired: no temp-file / Encode /
// Sync / Seek / Decode operation is executed between that moment and the end of the Clear).
// Sequential mode, and concurrent mode ("r": the caller recovers like the sequential one) under
// schedules in which every writer of the failed cycle has ended before the Clear.
func c13Recovery(g *hx.Gen) {
	type rw struct {
		c      int
		first  []string // ops of the first cycle (ends with c)
		second []string // ops of the second cycle
		ty     string
	}
	mk := func(ty string, c, n1, n2 int, clear2 bool) rw {
		cyc := func(n, pulls int, clear bool) []string {
			var ops []string
			base := g.Intn(40)
			for _, i := range g.Perm(n) {
				if ty == "s" {
					ops = append(ops, fmt.Sprintf("p%d:%d", base+3*i, g.Intn(3)))
				} else {
					ops = append(ops, fmt.Sprintf("p%d", base+3*i))
				}
			}
			ops = append(ops, "f")
			for i := 0; i < pulls; i++ {
				ops = append(ops, "l")
			}
			if clear {
				ops = append(ops, "c")
			}
			return ops
		}
		return rw{c, cyc(n1, n1+1, true), cyc(n2, n2+1, clear2), ty}
	}
	rws := []rw{mk("i", 2, 5, 5, true), mk("s", 1, 2, 3, false), mk("i", 3, 7, 4, true)}
	if g.Thorough() {
		rws = append(rws, mk("s", 2, 4, 7, true), mk("i", 5, 11, 6, false))
	}
	for wi, w := range rws {
		ops := append(append([]string(nil), w.first...), w.second...)
		if wi == 0 {
			// a third cycle: the sorter is used on after the second recovery, too
			ops = append(ops, "p7", "p3", "p5", "f", "l", "l", "l", "l")
		}
		n1 := c13Counts(w.c, w.first)
		n2 := c13Counts(w.c, w.second)
		for _, p1 := range c13Points {
			// first fault: the first, a middle and the last execution of p1 in the first cycle
			ks := map[int]bool{0: true, n1[p1] / 2: true, n1[p1] - 1: true}
			for k1 := 0; k1 < n1[p1]; k1++ {
				if !ks[k1] && !(g.Thorough() && wi == 0) {
					continue
				}
				for _, p2 := range c13Points {
					for k2 := 0; k2 < n2[p2] && !g.Done(); k2++ {
						fault := fmt.Sprintf("%s:%d+%s:%d", p1, k1, p2, k2)
						ac := (k1+k2)%3 == 2
						g.Case(c13Line(false, w.c, ac, false, w.ty, ops, nil, fault))
						// concurrent mode: one in three (every one in the thorough tier)
						if !g.Thorough() && (k1+k2+wi)%3 != 0 {
							continue
						}
						pol := 0
						if g.Chance(0.3) {
							pol = 2
						}
						sim := newSimF(true, w.c, ac, ops, fault, true)
						if sched, ok := c13SchedF(g, sim, pol); ok {
							g.Case(c13LineR(true, w.c, ac, false, w.ty, ops, sched, fault))
						} else {
							sim = newSimF(true, w.c, ac, ops, fault, true)
							sched, _ := c13SchedF(g, sim, 0)
							g.Case(c13LineR(true, w.c, ac, false, w.ty, ops, sched, fault))
						}
					}
				}
			}
		}
	}
	// random histories of 2..4 cycles with two or three faults anywhere, sequential mode
	n := g.Scale(150, 6000)
	for k := 0; k < n && !g.Done(); k++ {
		c := g.Pick(1, 2, 2, 3, 5)
		ty := "i"
		if g.Chance(0.4) {
			ty = "s"
		}
		ac := g.Chance(0.3)
		var ops []string
		cycles := g.Range(2, 4)
		total := 0
		for cy := 0; cy < cycles; cy++ {
			cnt := g.Range(1, 3)*c + g.Pick(0, 1, c-1)
			pulls := cnt + 1
			if g.Chance(0.2) {
				pulls = g.Intn(cnt + 1)
			}
			ops = c11Cycle(g, ops, c, ty, cnt, pulls, true, g.Pick(4, 50))
			total += cnt
		}
		nf := g.Pick(2, 2, 3)
		var fs []string
		for i := 0; i < nf; i++ {
			fs = append(fs, fmt.Sprintf("%s:%d", c13Points[g.Intn(len(c13Points))], g.Intn(total/cycles+1)))
		}
		g.Case(c13Line(false, c, ac, false, ty, ops, nil, strings.Join(fs, "+")))
	}
}

// c13Abandon: (5) the caller abandons the sort with CleanUp (ops end with u) - after some pushes,
// in the middle of a history, or reacting to an error that Push or Finalise reported - while
// chunk writers are in flight: held before write.recv (so before they create their temporary
// file), after having created it, or anywhere.  Concurrent mode, forced schedules: the caller
// runs to the end of its CleanUp while the chosen writers are held, then every writer runs to
// its end.  Observation: the listing of the directory when everything has stopped.
func c13Abandon(g *hx.Gen) {
	n := g.Scale(140, 4000)
	for k := 0; k < n && !g.Done(); k++ {
		c := g.Pick(1, 2, 2, 3, 4)
		ty := "i"
		if g.Chance(0.3) {
			ty = "s"
		}
		var ops []string
		shape := k % 4
		if shape == 3 {
			shape = g.Intn(3)
		}
		fault := "-"
		switch shape {
		case 0: // some pushes, then CleanUp: the last chunk(s) are with the writers
			cnt := g.Range(1, 3)*c + g.Pick(1, 1, c)
			ops = c11Cycle(g, nil, c, ty, cnt, 0, false, 50)
			ops = ops[:len(ops)-1] // no Finalise
		case 1: // a whole cycle (cleared), then pushes of the next one, then CleanUp
			cnt := g.Range(1, 2)*c + g.Pick(0, 1)
			ops = c11Cycle(g, nil, c, ty, cnt, g.Intn(cnt+2), true, 50)
			cnt = g.Range(1, 3)*c + g.Pick(1, c)
			ops = c11Cycle(g, ops, c, ty, cnt, 0, false, 50)
			ops = ops[:len(ops)-1]
		case 2: // a writer fails, Push (or Finalise) reports it, the caller reacts with CleanUp
			cnt := g.Range(2, 4)*c + g.Pick(0, 1, c)
			ops = c11Cycle(g, nil, c, ty, cnt, cnt+1, false, 50)
			fault = fmt.Sprintf("%s:%d", []string{"tempfile", "encode", "sync"}[g.Intn(3)], g.Intn(2))
		}
		ops = append(ops, "u")
		s := newSimF(true, c, false, ops, fault, false)
		var sched []int
		// hold: 0 = writers never move before CleanUp (held before write.recv: no file yet),
		// 1 = every writer creates its file and is then held, 2 = random
		hold := g.Pick(0, 0, 1, 2)
		callerDone := func() bool { return s.pc == 0 && s.ip >= len(s.prog) }
		for steps := 0; steps < 600 && !callerDone(); steps++ {
			var en []int
			for a := 0; a <= len(s.ws); a++ {
				if s.clone().step(a) {
					en = append(en, a)
				}
			}
			if len(en) == 0 {
				break
			}
			// hold 0: when the caller is blocked (both buffers are with writers) the oldest
			// writer moves on
			a := en[0]
			switch hold {
			case 1:
				for _, e := range en {
					if e > 0 && s.ws[e-1].pc == 0 {
						a = e // let it receive and create its file, no further
						break
					}
				}
			default:
				a = en[g.Intn(len(en))]
			}
			s.step(a)
			sched = append(sched, a)
		}
		// the writers run to their end (a writer whose TempFile fails needs fewer blocks: the
		// surplus entries are flagged x on both sides)
		for a := 1; a <= len(s.ws); a++ {
			for i := 0; i < c+5; i++ {
				sched = append(sched, a)
			}
		}
		g.Case(c13Line(true, c, false, false, ty, ops, sched, fault))
	}
}

func init() {
	// a workload is replayed with an 800 ms watchdog per step when a step looked blocked: on a
	// loaded machine a long forced schedule can exceed the default 20 s
	hx.Register(&hx.Prop{ID: "C13", Gen: c13Gen, Exec: c13Exec, Timeout: 90 * time.Second})
}
