package props

// C13 — I/O failures are never hidden; no temporary files remain.
//
// Input        x <conc> <chunk> <autoClear> <autoClean> <i|s> <ops> <sched> <fault> [<opts>]
//              fault = - or <point>:<n>(+<point>:<n>)*: a list of faults armed one after the other;
//              the armed one fires at the n-th execution (from 0) of tempfile | encode | sync |
//              seek | fdecode | pdecode | close | remove counted from the moment it became armed
//              (start of the run / firing of its predecessor); the hook at that point returns an
//              error which the code treats as the error of that operation
//              ops may end with u: the caller's last call is CleanUp (abandoned sorter)
//              opts = r: the concurrent caller, too, recovers with Clear after a reported error
// Observation  <flags> <status> <disk> <dir> <dirAfterCleanUp> <out>*      (see morass_ctl.go)

import (
	"fmt"
	"strings"
	"time"

	"verif/harness/hx"
)

// Close/Remove failures inside Clear are outside the statement (and a hook cannot undo a real
// Close), so they are not generated; the model still has the two points.
var c13Points = []string{"tempfile", "encode", "sync", "seek", "fdecode", "pdecode"}

func c13Line(conc bool, c int, ac, aclean bool, ty string, ops []string, sched []int, fault string) string {
	return fmt.Sprintf("x %s %d %s %s %s %s %s %s", hx.B(conc), c, hx.B(ac), hx.B(aclean), ty, strings.Join(ops, ","), hx.Ints(sched), fault)
}

func c13LineR(conc bool, c int, ac, aclean bool, ty string, ops []string, sched []int, fault string) string {
	return c13Line(conc, c, ac, aclean, ty, ops, sched, fault) + " r"
}

// c13SchedF walks the fault-aware simulator: policy 0 = a spawned writer runs to its end at once
// (so every writer has ended when an error is reported and when the caller recovers with Clear),
// 1 = the caller runs until it blocks, then the writers, 2 = random.  ok = false when a Clear
// after a reported error would run while a writer is alive (the model is not tied to the code
// there: notes/C13.md).
func c13SchedF(g *hx.Gen, s *simS, policy int) (sched []int, ok bool) {
	for steps := 0; steps < 900; steps++ {
		var en []int
		for a := 0; a <= len(s.ws); a++ {
			if s.clone().step(a) {
				en = append(en, a)
			}
		}
		if len(en) == 0 {
			break
		}
		a := en[0]
		switch policy {
		case 0:
			if en[0] == 0 && len(en) > 1 {
				a = en[1]
			}
		case 1:
		default:
			a = en[g.Intn(len(en))]
		}
		s.step(a)
		sched = append(sched, a)
	}
	return sched, !s.clearedAlive
}

func c13Exec(input string) string {
	f := hx.Fields(input)
	if f[0] != "x" {
		panic("c13: bad input " + input)
	}
	w := parseMWork(f[1:])
	w.trace = true
	return morassRunWork(w)
}

// c13Sched walks the protocol simulator with a fixed policy up to quiescence.
// policy 0: a spawned writer runs to completion at once; 1: the caller runs until it blocks;
// 2: random; 3: as 1, but every writer first takes its chunk and is held in mid-write.
func c13Sched(g *hx.Gen, c int, ac bool, ops []string, policy int) []int {
	s := newSim(c, ac, ops)
	var sched []int
	taken := map[int]int{}
	for steps := 0; steps < 600 && !s.quiescent(); steps++ {
		var en []int
		for a := 0; a <= len(s.ws); a++ {
			if s.clone().step(a) {
				en = append(en, a)
			}
		}
		if len(en) == 0 {
			break
		}
		a := en[0]
		switch policy {
		case 0:
			if len(en) > 1 || en[0] != 0 {
				a = en[len(en)-1]
				if en[0] != 0 {
					a = en[0]
				} else {
					a = en[1]
				}
			}
		case 1:
			a = en[0]
		case 3:
			// a spawned writer takes its chunk (one step) and is then held in the middle of its
			// write while the caller runs on until it blocks: Finalise's own synchronous write
			// overtakes a background writer that fails only afterwards (seeded change C13-m10)
			a = en[0]
			for _, w := range en {
				if w > 0 && taken[w] == 0 {
					a = w
					break
				}
			}
		default:
			a = en[g.Intn(len(en))]
		}
		s.step(a)
		taken[a]++
		sched = append(sched, a)
	}
	return sched
}

func c13Gen(g *hx.Gen) {
	// (0) file-system residue, enumerated first so that a time budget never cuts it off: both
	// modes x AutoClear x AutoClean x (cycle stays in memory | spills) x (full | partial drain),
	// one- and two-cycle histories (with AutoClean only the last cycle is drained to EOF)
	for _, conc := range []bool{false, true} {
		for _, ac := range []bool{false, true} {
			for _, aclean := range []bool{false, true} {
				for _, c := range []int{1, 3} {
					for _, counts := range [][]int{{0}, {c - 1}, {c}, {2*c + 1}, {c - 1, 2*c + 1}, {2*c + 1, c - 1}, {c - 1, c - 1}} {
						for _, full := range []bool{true, false} {
							var ops []string
							for i, cnt := range counts {
								if cnt < 0 {
									cnt = 0
								}
								last := i == len(counts)-1
								pulls := cnt + 1 // drain to io.EOF
								if (last && !full) || (!last && aclean) {
									pulls = cnt / 2 // stop before io.EOF (with AutoClean the directory must survive)
								}
								ops = c11Cycle(g, ops, c, "i", cnt, pulls, !last, 50)
							}
							g.Case(c13Line(conc, c, ac, aclean, "i", ops, nil, "-"))
						}
					}
				}
			}
		}
	}
	// (1) every single I/O operation of a multi-chunk workload as the failing one, both modes
	type wl struct {
		c   int
		ops []string
	}
	var wls []wl
	distinct := func(ty string, n, pulls int, clear bool, ops []string) []string {
		// distinct keys: which file is exhausted first (and so the residue) is then determined
		base := g.Intn(50)
		for _, i := range g.Perm(n) {
			if ty == "s" {
				ops = append(ops, fmt.Sprintf("p%d:%d", base+3*i, g.Intn(3)))
			} else {
				ops = append(ops, fmt.Sprintf("p%d", base+3*i))
			}
		}
		ops = append(ops, "f")
		for i := 0; i < pulls; i++ {
			ops = append(ops, "l")
		}
		if clear {
			ops = append(ops, "c")
		}
		return ops
	}
	wls = append(wls, wl{2, distinct("i", 5, 6, true, nil)})
	wls = append(wls, wl{2, distinct("s", 3, 4, true, distinct("s", 5, 2, true, nil))})
	if g.Thorough() {
		wls = append(wls, wl{3, distinct("i", 17, 18, true, nil)})
	}
	for _, w := range wls {
		ty := "i"
		if strings.Contains(w.ops[0], ":") {
			ty = "s"
		}
		npush := 0
		for _, o := range w.ops {
			if o[0] == 'p' {
				npush++
			}
		}
		for _, pt := range c13Points {
			for k := 0; k <= npush && !g.Done(); k++ {
				fault := fmt.Sprintf("%s:%d", pt, k)
				ac := k%2 == 1
				g.Case(c13Line(false, w.c, ac, false, ty, w.ops, nil, fault))
				for _, pol := range []int{0, 1, 3} {
					g.Case(c13Line(true, w.c, ac, false, ty, w.ops, c13Sched(g, w.c, ac, w.ops, pol), fault))
				}
			}
		}
	}
	// after the systematic single-fault enumeration, so that a widened (focused) run, in which the
	// generators below produce their thorough-tier volume, cannot starve it of the case budget
	c13Fourth(g)
	c13Recovery(g)
	c13Abandon(g)
	// (2) (fault, ordering) pairs in concurrent mode: random walks, random single fault
	n := g.Scale(250, 20000)
	for k := 0; k < n && !g.Done(); k++ {
		c := g.Pick(1, 2, 2, 3, 1, 2, 3, g.Pick(5, 6, 7, 10))
		cnt := g.Range(1, 4)*c + g.Pick(0, 1, c-1)
		if c > 4 {
			cnt = g.Range(1, 2)*c + g.Pick(0, 1, c-1)
		}
		ty := "i"
		if g.Chance(0.5) {
			ty = "s"
		}
		ac := g.Chance(0.4)
		var ops []string
		cycles := g.Pick(1, 1, 2, 2, 3)
		total := 0
		for cy := 0; cy < cycles; cy++ {
			pulls := cnt + 1
			if g.Chance(0.25) {
				pulls = g.Intn(cnt + 1)
			}
			ops = c11Cycle(g, ops, c, ty, cnt, pulls, true, g.Pick(4, 50))
			total += cnt
			cnt = g.Pick(cnt, g.Range(1, 3)*c+g.Pick(0, 1), g.Intn(c+1))
		}
		if g.Chance(0.2) { // a rejected Push (another type) is a no-op, with faults too
			i := g.Intn(len(ops) + 1)
			ops = append(ops[:i:i], append([]string{"x"}, ops[i:]...)...)
		}
		// the fault may fall into any cycle of the history
		fault := fmt.Sprintf("%s:%d", c13Points[g.Intn(len(c13Points))], g.Intn(total+1)) + []string{"", "", ":g", ":u", ":w"}[g.Intn(5)]
		g.Case(c13Line(true, c, ac, false, ty, ops, c13Sched(g, c, ac, ops, 2), fault))
	}
	// (3) residue of the temporary directory after fault-free histories, both modes
	n = g.Scale(400, 30000)
	for k := 0; k < n && !g.Done(); k++ {
		c := g.Pick(1, 2, 3, 4, 1, 2, 3, 4, g.Pick(5, 6, 7, 10))
		ty := "i"
		if g.Chance(0.3) {
			ty = "s"
		}
		ac, aclean := g.Chance(0.5), g.Chance(0.4)
		cycles := g.Range(1, 3)
		if aclean {
			cycles = 1 // the directory is gone after the first drained cycle
		}
		var ops []string
		for cy := 0; cy < cycles; cy++ {
			cnt := c11Count(g, c)
			pulls := cnt + 1
			if g.Chance(0.3) {
				pulls = g.Intn(cnt + 1)
			}
			clear := cy < cycles-1 || g.Chance(0.3)
			if aclean {
				clear = false
			}
			ops = c11Cycle(g, ops, c, ty, cnt, pulls, clear, g.Pick(4, 50))
		}
		if g.Chance(0.15) {
			i := g.Intn(len(ops) + 1)
			ops = append(ops[:i:i], append([]string{"x"}, ops[i:]...)...)
		}
		g.Case(c13Line(g.Chance(0.5), c, ac, aclean, ty, ops, nil, "-"))
	}
}

// c13Count: how often each fault point is executed by a fault-free run of ops (sequential).
func c13Counts(c int, ops []string) map[string]int {
	n := map[string]int{}
	// count through a private fault list that never fires: one probe per point
	for _, pt := range c13Points {
		t := newSimF(false, c, false, ops, pt+":1000000", false)
		for steps := 0; steps < 5000; steps++ {
			moved := false
			for a := len(t.ws); a >= 0; a-- {
				if t.step(a) {
					moved = true
					break
				}
			}
			if !moved {
				break
			}
		}
		n[pt] = 1000000 - t.faults[0].n
	}
	return n
}

// c13Recovery: (4) two faults.  The first fires in the first cycle and is reported; the caller
// makes no call until the Clear that closes that cycle; the second fault is every I/O operation
// of the next cycle in turn (its count starts when the first has fired: no temp-file / Encode /
// Sync / Seek / Decode operation is executed between that moment and the end of the Clear).
// Sequential mode, and concurrent mode ("r": the caller recovers like the sequential one) under
// schedules in which every writer of the failed cycle has ended before the Clear.
func c13Recovery(g *hx.Gen) {
	type rw struct {
		c      int
		first  []string // ops of the first cycle (ends with c)
		second []string // ops of the second cycle
		ty     string
	}
	mk := func(ty string, c, n1, n2 int, clear2 bool) rw {
		cyc := func(n, pulls int, clear bool) []string {
			var ops []string
			base := g.Intn(40)
			for _, i := range g.Perm(n) {
				if ty == "s" {
					ops = append(ops, fmt.Sprintf("p%d:%d", base+3*i, g.Intn(3)))
				} else {
					ops = append(ops, fmt.Sprintf("p%d", base+3*i))
				}
			}
			ops = append(ops, "f")
			for i := 0; i < pulls; i++ {
				ops = append(ops, "l")
			}
			if clear {
				ops = append(ops, "c")
			}
			return ops
		}
		return rw{c, cyc(n1, n1+1, true), cyc(n2, n2+1, clear2), ty}
	}
	rws := []rw{mk("i", 2, 5, 5, true), mk("s", 1, 2, 3, false), mk("i", 3, 7, 4, true)}
	if g.Thorough() {
		rws = append(rws, mk("s", 2, 4, 7, true), mk("i", 5, 11, 6, false))
	}
	for wi, w := range rws {
		ops := append(append([]string(nil), w.first...), w.second...)
		if wi == 0 {
			// a third cycle: the sorter is used on after the second recovery, too
			ops = append(ops, "p7", "p3", "p5", "f", "l", "l", "l", "l")
		}
		n1 := c13Counts(w.c, w.first)
		n2 := c13Counts(w.c, w.second)
		for _, p1 := range c13Points {
			// first fault: the first, a middle and the last execution of p1 in the first cycle
			ks := map[int]bool{0: true, n1[p1] / 2: true, n1[p1] - 1: true}
			for k1 := 0; k1 < n1[p1]; k1++ {
				if !ks[k1] && !(g.Thorough() && wi == 0) {
					continue
				}
				for _, p2 := range c13Points {
					for k2 := 0; k2 < n2[p2] && !g.Done(); k2++ {
						// (fourth wave) the identity of the injected error values rotates
						fault := fmt.Sprintf("%s:%d%s+%s:%d%s", p1, k1, []string{"", ":u", "", ":w"}[(k1+k2)%4], p2, k2, []string{"", "", ":u", ":w", ":g"}[(k1+2*k2)%5])
						ac := (k1+k2)%3 == 2
						g.Case(c13Line(false, w.c, ac, false, w.ty, ops, nil, fault))
						// concurrent mode: one in three (every one in the thorough tier)
						if !g.Thorough() && (k1+k2+wi)%3 != 0 {
							continue
						}
						pol := 0
						if g.Chance(0.3) {
							pol = 2
						}
						sim := newSimF(true, w.c, ac, ops, fault, true)
						if sched, ok := c13SchedF(g, sim, pol); ok {
							g.Case(c13LineR(true, w.c, ac, false, w.ty, ops, sched, fault))
						} else {
							sim = newSimF(true, w.c, ac, ops, fault, true)
							sched, _ := c13SchedF(g, sim, 0)
							g.Case(c13LineR(true, w.c, ac, false, w.ty, ops, sched, fault))
						}
					}
				}
			}
		}
	}
	// random histories of 2..4 cycles with two or three faults anywhere, sequential mode
	n := g.Scale(150, 6000)
	for k := 0; k < n && !g.Done(); k++ {
		c := g.Pick(1, 2, 2, 3, 5)
		ty := "i"
		if g.Chance(0.4) {
			ty = "s"
		}
		ac := g.Chance(0.3)
		var ops []string
		cycles := g.Range(2, 4)
		total := 0
		for cy := 0; cy < cycles; cy++ {
			cnt := g.Range(1, 3)*c + g.Pick(0, 1, c-1)
			pulls := cnt + 1
			if g.Chance(0.2) {
				pulls = g.Intn(cnt + 1)
			}
			ops = c11Cycle(g, ops, c, ty, cnt, pulls, true, g.Pick(4, 50))
			total += cnt
		}
		nf := g.Pick(2, 2, 3)
		var fs []string
		for i := 0; i < nf; i++ {
			fs = append(fs, fmt.Sprintf("%s:%d", c13Points[g.Intn(len(c13Points))], g.Intn(total/cycles+1)))
		}
		g.Case(c13Line(false, c, ac, false, ty, ops, nil, strings.Join(fs, "+")))
	}
}

// c13Distinct appends one cycle of n values with distinct keys (which file is exhausted first, and
// so the residue, is then determined): pushes, and when fin Finalise and pulls, and when clear Clear.
func c13Distinct(g *hx.Gen, ops []string, ty string, n int, fin bool, pulls int, clear bool) []string {
	base := g.Intn(50)
	for _, i := range g.Perm(n) {
		if ty == "s" {
			ops = append(ops, fmt.Sprintf("p%d:%d", base+3*i, g.Intn(3)))
		} else {
			ops = append(ops, fmt.Sprintf("p%d", base+3*i))
		}
	}
	if fin {
		ops = append(ops, "f")
		for i := 0; i < pulls; i++ {
			ops = append(ops, "l")
		}
	}
	if clear {
		ops = append(ops, "c")
	}
	return ops
}

// c13ConcSched: a forced schedule for the whole program in concurrent mode under which no Clear
// runs while a write() activation is alive (Clear does not wait for writers: notes/C13.md).
// Policy 0 (a spawned writer runs to its end at once) always qualifies; one in three tries a
// random walk first.
func c13ConcSched(g *hx.Gen, c int, ac bool, ops []string, fault string, reuse bool) []int {
	if g.Chance(0.33) {
		sim := newSimF(true, c, ac, ops, fault, reuse)
		if sched, ok := c13SchedF(g, sim, 2); ok && !sim.clearRacy {
			return sched
		}
	}
	sched, _ := c13SchedF(g, newSimF(true, c, ac, ops, fault, reuse), 0)
	return sched
}

// c13Fourth: (6) fourth wave.
// (6a) cycles ABANDONED with Clear before Finalise (seeded change C13-m7): after nothing / a cycle
//      that stayed in memory / a cycle that spilled, a cycle of c-1 (no run file yet), c+1, 2c+1
//      pushes is given up with Clear, and further cycles follow (in memory, spilling; drained, so
//      that with AutoClear the listing at the drain is part of the statement); both modes (the
//      concurrent one under schedules in which no writer is alive at a Clear), AutoClear on/off.
// (6b) the same shape reached through a reported failure: memory-only cycle, Clear, a spilling
//      cycle in which a writer fails, the caller recovers with Clear, a third cycle is drained.
// (6c) the identity of the injected error (seeded change C13-m8): every Decode of Finalise and of
//      Pull of the two workloads of stage (1) fails with io.ErrUnexpectedEOF itself and with an
//      *os.PathError wrapping it (stage (1) injects the generic value at the same places).
// (6d) a completed run file is cut short on disk by 1..3 bytes before Finalise reads it
//      (fault trunc:<n>:<bytes>: at the n-th Seek of Finalise the harness truncates the file that
//      is about to be read), alone, in the second cycle, and after a recovery.
func c13Fourth(g *hx.Gen) {
	emit := func(conc bool, c int, ac bool, ty string, ops []string, fault string, reuse bool) {
		if !conc {
			g.Case(c13Line(false, c, ac, false, ty, ops, nil, fault))
			return
		}
		sched := c13ConcSched(g, c, ac, ops, fault, reuse)
		if reuse {
			g.Case(c13LineR(true, c, ac, false, ty, ops, sched, fault))
		} else {
			g.Case(c13Line(true, c, ac, false, ty, ops, sched, fault))
		}
	}
	// (6a)
	for _, conc := range []bool{false, true} {
		for _, ac := range []bool{true, false} {
			for _, c := range []int{2, 1, 3} {
				for prev := 0; prev < 3; prev++ {
					for _, nd := range []int{c + 1, 2*c + 1, c - 1} {
						for follow := 0; follow < 3 && !g.Done(); follow++ {
							ty := "i"
							if (prev+follow+nd)%4 == 3 {
								ty = "s"
							}
							var ops []string
							switch prev {
							case 1: // stayed in memory (Finalise sets fast)
								ops = c13Distinct(g, ops, ty, c-1, true, c, true)
							case 2: // spilled
								ops = c13Distinct(g, ops, ty, 2*c, true, g.Pick(2*c+1, c), true)
							}
							ops = c13Distinct(g, ops, ty, nd, false, 0, true) // abandoned
							switch follow {
							case 0: // in memory, drained
								ops = c13Distinct(g, ops, ty, c-1, true, c, false)
							case 1: // spilling, drained
								ops = c13Distinct(g, ops, ty, 2*c+1, true, 2*c+2, g.Chance(0.5))
							case 2: // a second abandoned cycle, a partial drain, then a drained cycle
								ops = c13Distinct(g, ops, ty, c, false, 0, true)
								ops = c13Distinct(g, ops, ty, 2*c, true, c, true)
								ops = c13Distinct(g, ops, ty, c+1, true, c+2, false)
							}
							emit(conc, c, ac, ty, ops, "-", false)
						}
					}
				}
			}
		}
	}
	// random histories with abandoned cycles, both modes, sometimes a rejected Push
	n := g.Scale(120, 8000)
	for k := 0; k < n && !g.Done(); k++ {
		c := g.Pick(1, 2, 2, 3, 4, g.Pick(5, 6, 7, 10))
		ty := []string{"i", "i", "s"}[g.Intn(3)]
		ac := g.Chance(0.6)
		var ops []string
		closed := true
		for cy, cycles := 0, g.Range(2, 5); cy < cycles; cy++ {
			cnt := c11Count(g, c)
			if closed && g.Chance(0.45) {
				ops = c13Distinct(g, ops, ty, cnt, false, 0, true)
				continue
			}
			if !closed {
				break
			}
			pulls := cnt + 1
			if g.Chance(0.25) {
				pulls = g.Intn(cnt + 1)
			}
			clear := g.Chance(0.6)
			ops = c13Distinct(g, ops, ty, cnt, true, pulls, clear)
			closed = clear || (ac && pulls > cnt)
		}
		if g.Chance(0.15) {
			i := g.Intn(len(ops) + 1)
			ops = append(ops[:i:i], append([]string{"x"}, ops[i:]...)...)
		}
		emit(g.Chance(0.5), c, ac, ty, ops, "-", false)
	}
	// (6b)
	for _, c := range []int{2, 3} {
		for _, ac := range []bool{true, false} {
			for _, fault := range []string{"tempfile:0", "tempfile:1", "encode:0", "encode:" + fmt.Sprint(c), "sync:0", "sync:1:u", "tempfile:0+pdecode:1", "encode:1:w+tempfile:0"} {
				if g.Done() {
					break
				}
				ops := c13Distinct(g, nil, "i", c-1, true, c, true)
				ops = c13Distinct(g, ops, "i", 2*c+1, true, 2*c+2, true)
				ops = c13Distinct(g, ops, "i", 2*c+1, true, 2*c+2, false)
				emit(false, c, ac, "i", ops, fault, false)
				emit(true, c, ac, "i", ops, fault, true)
			}
		}
	}
	// (6c)
	type wl struct {
		c   int
		ty  string
		ops []string
	}
	wls := []wl{
		{2, "i", c13Distinct(g, nil, "i", 5, true, 6, true)},
		{2, "s", c13Distinct(g, c13Distinct(g, nil, "s", 5, true, 2, true), "s", 3, true, 4, true)},
		{3, "i", c13Distinct(g, nil, "i", 8, true, 9, false)},
	}
	for wi, w := range wls {
		cnt := c13Counts(w.c, w.ops)
		for _, pt := range []string{"fdecode", "pdecode", "seek"} {
			for k := 0; k < cnt[pt] && !g.Done(); k++ {
				for ki, kind := range []string{"u", "w"} {
					if pt == "seek" && (k+ki)%2 == 1 {
						continue
					}
					fault := fmt.Sprintf("%s:%d:%s", pt, k, kind)
					ac := (k+ki+wi)%2 == 1
					emit(false, w.c, ac, w.ty, w.ops, fault, false)
					if (k+ki)%2 == 0 || g.Thorough() {
						g.Case(c13Line(true, w.c, ac, false, w.ty, w.ops, c13Sched(g, w.c, ac, w.ops, g.Intn(2)), fault))
					}
				}
			}
		}
	}
	// (6d)
	for wi, w := range wls {
		cnt := c13Counts(w.c, w.ops)
		for k := 0; k < cnt["seek"] && !g.Done(); k++ {
			for b := 1; b <= 3; b++ {
				fault := fmt.Sprintf("trunc:%d:%d", k, b)
				ac := (k+b+wi)%2 == 0
				emit(false, w.c, ac, w.ty, w.ops, fault, false)
				if b == 1+k%3 || g.Thorough() {
					sched, _ := c13SchedF(g, newSimF(true, w.c, ac, w.ops, "-", false), 0)
					g.Case(c13Line(true, w.c, ac, false, w.ty, w.ops, sched, fault))
				}
			}
		}
	}
	// … after a recovery, and with partial drains (the cut value may never be read)
	n = g.Scale(60, 3000)
	for k := 0; k < n && !g.Done(); k++ {
		c := g.Pick(1, 2, 2, 3, 4)
		ty := []string{"i", "s"}[g.Intn(2)]
		ac := g.Chance(0.4)
		n1, n2 := g.Range(1, 3)*c+g.Pick(0, 1, c-1), g.Range(1, 3)*c+g.Pick(0, 1, c-1)
		p2 := n2 + 1
		if g.Chance(0.3) {
			p2 = g.Intn(n2 + 1)
		}
		ops := c13Distinct(g, nil, ty, n1, true, n1+1, true)
		ops = c13Distinct(g, ops, ty, n2, true, p2, g.Chance(0.5))
		runs2 := (n2 + c - 1) / c
		fault := fmt.Sprintf("trunc:%d:%d", g.Intn(runs2), g.Range(1, 3))
		if g.Chance(0.6) {
			// first a reported failure in cycle 1 (the seeks of cycle 1 are then never executed
			// or precede the arming), then the cut in cycle 2
			fault = fmt.Sprintf("%s:%d+%s", []string{"tempfile", "encode", "sync"}[g.Intn(3)], g.Intn(2), fault)
		} else {
			runs1 := (n1 + c - 1) / c
			fault = fmt.Sprintf("trunc:%d:%d", runs1+g.Intn(runs2), g.Range(1, 3))
		}
		g.Case(c13Line(false, c, ac, false, ty, ops, nil, fault))
	}
}

// c13Abandon: (5) the caller abandons the sort with CleanUp (ops end with u) - after some pushes,
// in the middle of a history, or reacting to an error that Push or Finalise reported - while
// chunk writers are in flight: held before write.recv (so before they create their temporary
// file), after having created it, or anywhere.  Concurrent mode, forced schedules: the caller
// runs to the end of its CleanUp while the chosen writers are held, then every writer runs to
// its end.  Observation: the listing of the directory when everything has stopped.
func c13Abandon(g *hx.Gen) {
	n := g.Scale(140, 4000)
	for k := 0; k < n && !g.Done(); k++ {
		c := g.Pick(1, 2, 2, 3, 4)
		ty := "i"
		if g.Chance(0.3) {
			ty = "s"
		}
		var ops []string
		shape := k % 4
		if shape == 3 {
			shape = g.Intn(3)
		}
		fault := "-"
		switch shape {
		case 0: // some pushes, then CleanUp: the last chunk(s) are with the writers
			cnt := g.Range(1, 3)*c + g.Pick(1, 1, c)
			ops = c11Cycle(g, nil, c, ty, cnt, 0, false, 50)
			ops = ops[:len(ops)-1] // no Finalise
		case 1: // a whole cycle (cleared), then pushes of the next one, then CleanUp
			cnt := g.Range(1, 2)*c + g.Pick(0, 1)
			ops = c11Cycle(g, nil, c, ty, cnt, g.Intn(cnt+2), true, 50)
			cnt = g.Range(1, 3)*c + g.Pick(1, c)
			ops = c11Cycle(g, ops, c, ty, cnt, 0, false, 50)
			ops = ops[:len(ops)-1]
		case 2: // a writer fails, Push (or Finalise) reports it, the caller reacts with CleanUp
			cnt := g.Range(2, 4)*c + g.Pick(0, 1, c)
			ops = c11Cycle(g, nil, c, ty, cnt, cnt+1, false, 50)
			fault = fmt.Sprintf("%s:%d", []string{"tempfile", "encode", "sync"}[g.Intn(3)], g.Intn(2))
		}
		ops = append(ops, "u")
		s := newSimF(true, c, false, ops, fault, false)
		var sched []int
		// hold: 0 = writers never move before CleanUp (held before write.recv: no file yet),
		// 1 = every writer creates its file and is then held, 2 = random
		hold := g.Pick(0, 0, 1, 2)
		callerDone := func() bool { return s.pc == 0 && s.ip >= len(s.prog) }
		for steps := 0; steps < 600 && !callerDone(); steps++ {
			var en []int
			for a := 0; a <= len(s.ws); a++ {
				if s.clone().step(a) {
					en = append(en, a)
				}
			}
			if len(en) == 0 {
				break
			}
			// hold 0: when the caller is blocked (both buffers are with writers) the oldest
			// writer moves on
			a := en[0]
			switch hold {
			case 1:
				for _, e := range en {
					if e > 0 && s.ws[e-1].pc == 0 {
						a = e // let it receive and create its file, no further
						break
					}
				}
			default:
				a = en[g.Intn(len(en))]
			}
			s.step(a)
			sched = append(sched, a)
		}
		// the writers run to their end (a writer whose TempFile fails needs fewer blocks: the
		// surplus entries are flagged x on both sides)
		for a := 1; a <= len(s.ws); a++ {
			for i := 0; i < c+5; i++ {
				sched = append(sched, a)
			}
		}
		g.Case(c13Line(true, c, false, false, ty, ops, sched, fault))
	}
}

func init() {
	// a workload is replayed with an 800 ms watchdog per step when a step looked blocked: on a
	// loaded machine a long forced schedule can exceed the default 20 s
	hx.Register(&hx.Prop{ID: "C13", Gen: c13Gen, Exec: c13Exec, Timeout: 90 * time.Second})
}
