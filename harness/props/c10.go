package props

// C10 — k-mer index.
//
// Inputs (alpha ∈ DNA | RNA | DNAgapped; byte strings in hex)
//   ix <alpha> <k> <seq> <probes> <texts>   New, KmerFrequencies, Build, KmerIndex, StringKmerIndex,
//                                           KmerPositions(probes…), KmerPositionsString(texts…), Check;
//                                           then the caller uses its answers as its own (every entry of
//                                           every returned slice incremented, one element appended) and
//                                           asks all four accessors again: ix2 sx2 pr2 ps2
//                                           ("same" = identical to the first answer)
//   fa <alpha> <k> <seq>                    ForEachKmerOf over every sub-range 0 ≤ start,end ≤ len+1
//   fe <alpha> <k> <seq> <start> <end>      ForEachKmerOf over one sub-range
//   km <alpha> <k> <w>                      Format / KmerOf∘Format / GCof / ComplementOf (package and method)
//   ko <alpha> <k> <text>                   KmerOf (package and method) on an ASCII text
//
// Observations are lists of `name=value` tokens; see c10Exec.

import (
	"fmt"
	"math"
	"sort"
	"strconv"
	"strings"
	"unsafe"

	"github.com/biogo/biogo/alphabet"
	"github.com/biogo/biogo/index/kmerindex"
	"github.com/biogo/biogo/seq/linear"

	"verif/harness/hx"
)

func c10Alpha(n string) alphabet.Alphabet {
	switch n {
	case "DNA":
		return alphabet.DNA
	case "RNA":
		return alphabet.RNA
	case "DNAgapped":
		return alphabet.DNAgapped
	}
	panic("c10: unknown alphabet " + n)
}

func c10ErrKind(err error) string {
	switch err {
	case nil:
		return "ok"
	case kmerindex.ErrKTooLarge:
		return "err:ktoolarge"
	case kmerindex.ErrKTooSmall:
		return "err:ktoosmall"
	case kmerindex.ErrShortSeq:
		return "err:shortseq"
	case kmerindex.ErrBadAlphabet:
		return "err:badalphabet"
	case kmerindex.ErrBadKmer:
		return "err:badkmer"
	case kmerindex.ErrBadKmerTextLen:
		return "err:textlen"
	case kmerindex.ErrBadKmerText:
		return "err:text"
	}
	return "err:other:" + hx.Hex([]byte(err.Error()))
}

func c10Seq(a alphabet.Alphabet, bs []byte) *linear.Seq {
	return linear.NewSeq("s", alphabet.BytesToLetters(append([]byte(nil), bs...)), a)
}

func dots(xs []int) string {
	if len(xs) == 0 {
		return "-"
	}
	ss := make([]string, len(xs))
	for i, x := range xs {
		ss[i] = strconv.Itoa(x)
	}
	return strings.Join(ss, ".")
}

func orDash(parts []string, sep string) string {
	if len(parts) == 0 {
		return "-"
	}
	return strings.Join(parts, sep)
}

// an index with word size k over a fixed sequence, used to reach the methods that do not
// depend on the indexed sequence. New allocates 4^k+1 words: the index is cached, and for
// k > c10MaxDummyK (supported by the package, but a table of up to 16 GiB) the methods are skipped.
const c10MaxDummyK = 12

var errC10Skip = fmt.Errorf("skipped")

var c10Dummies = map[string]*kmerindex.Index{}

func c10Dummy(a alphabet.Alphabet, k int) (*kmerindex.Index, error) {
	if k > c10MaxDummyK && k <= kmerindex.MaxKmerLen {
		return nil, errC10Skip
	}
	key := a.Letters() + strconv.Itoa(k)
	if ki, ok := c10Dummies[key]; ok {
		return ki, nil
	}
	l := a.Letters()
	if len(l) > 4 {
		l = l[:4]
	}
	ki, err := kmerindex.New(k, c10Seq(a, []byte(strings.Repeat(l, 5))))
	if err == nil {
		c10Dummies[key] = ki
	}
	return ki, err
}

func c10Iter(ki *kmerindex.Index, s *linear.Seq, start, end int) string {
	var calls []string
	err := ki.ForEachKmerOf(s, start, end, func(_ *kmerindex.Index, p, w int) {
		calls = append(calls, strconv.Itoa(p)+":"+strconv.Itoa(w))
	})
	return orDash(calls, ",") + "/" + hx.B(err != nil)
}

func c10Exec(input string) string {
	f := hx.Fields(input)
	a := c10Alpha(f[1])
	k := hx.Atoi(f[2])
	switch f[0] {
	case "ix":
		s := c10Seq(a, hx.Unhex(f[3]))
		ki, err := kmerindex.New(k, s)
		if err != nil {
			return c10ErrKind(err)
		}
		var out []string
		// pre-build frequencies
		fm, fok := ki.KmerFrequencies()
		if !fok {
			out = append(out, "f=none")
		} else {
			keys := make([]int, 0, len(fm))
			for w := range fm {
				keys = append(keys, int(w))
			}
			sort.Ints(keys)
			parts := make([]string, len(keys))
			for i, w := range keys {
				parts[i] = strconv.Itoa(w) + ":" + strconv.Itoa(fm[kmerindex.Kmer(w)])
			}
			out = append(out, "f="+orDash(parts, ","))
		}
		ki.Build()
		var given [][]int // every positions slice handed to the caller
		im, iok := ki.KmerIndex()
		if !iok {
			out = append(out, "ix=none")
		} else {
			keys := make([]int, 0, len(im))
			for w := range im {
				keys = append(keys, int(w))
			}
			sort.Ints(keys)
			parts := make([]string, len(keys))
			for i, w := range keys {
				parts[i] = strconv.Itoa(w) + ":" + dots(im[kmerindex.Kmer(w)])
				given = append(given, im[kmerindex.Kmer(w)])
			}
			out = append(out, "ix="+orDash(parts, ","))
		}
		sm, sok := ki.StringKmerIndex()
		if !sok {
			out = append(out, "sx=none")
		} else {
			keys := make([]string, 0, len(sm))
			for w := range sm {
				keys = append(keys, w)
			}
			sort.Strings(keys)
			parts := make([]string, len(keys))
			for i, w := range keys {
				parts[i] = hx.Hex([]byte(w)) + ":" + dots(sm[w])
				given = append(given, sm[w])
			}
			out = append(out, "sx="+orDash(parts, ","))
		}
		var pr []string
		for _, w := range hx.ParseInts(f[4]) {
			p, err := ki.KmerPositions(kmerindex.Kmer(w))
			if err != nil {
				pr = append(pr, c10ErrKind(err))
			} else {
				pr = append(pr, dots(p))
				given = append(given, p)
			}
		}
		out = append(out, "pr="+orDash(pr, ","))
		var ps []string
		if f[5] != "-" {
			for _, t := range strings.Split(f[5], ",") {
				p, err := ki.KmerPositionsString(string(hx.Unhex(t)))
				if err != nil {
					ps = append(ps, c10ErrKind(err))
				} else {
					ps = append(ps, dots(p))
					given = append(given, p)
				}
			}
		}
		out = append(out, "ps="+orDash(ps, ","))
		ok, found := ki.Check()
		out = append(out, "chk="+hx.B(ok)+":"+strconv.Itoa(found))
		// second pass: the caller treats every answer as its own slice (shifts the coordinates in
		// place, appends to it), then asks every question again through every accessor
		for _, p := range given {
			for i := range p {
				p[i]++
			}
			p = append(p, -7)
			_ = p
		}
		first := map[string]string{}
		for _, t := range out {
			if i := strings.IndexByte(t, '='); i > 0 {
				first[t[:i]] = t[i+1:]
			}
		}
		again := func(name, v string) {
			if first[name] == v {
				v = "same"
			}
			out = append(out, name+"2="+v)
		}
		if im2, ok2 := ki.KmerIndex(); !ok2 {
			again("ix", "none")
		} else {
			keys := make([]int, 0, len(im2))
			for w := range im2 {
				keys = append(keys, int(w))
			}
			sort.Ints(keys)
			parts := make([]string, len(keys))
			for i, w := range keys {
				parts[i] = strconv.Itoa(w) + ":" + dots(im2[kmerindex.Kmer(w)])
			}
			again("ix", orDash(parts, ","))
		}
		if sm2, ok2 := ki.StringKmerIndex(); !ok2 {
			again("sx", "none")
		} else {
			keys := make([]string, 0, len(sm2))
			for w := range sm2 {
				keys = append(keys, w)
			}
			sort.Strings(keys)
			parts := make([]string, len(keys))
			for i, w := range keys {
				parts[i] = hx.Hex([]byte(w)) + ":" + dots(sm2[w])
			}
			again("sx", orDash(parts, ","))
		}
		var pr2 []string
		for _, w := range hx.ParseInts(f[4]) {
			if p, err := ki.KmerPositions(kmerindex.Kmer(w)); err != nil {
				pr2 = append(pr2, c10ErrKind(err))
			} else {
				pr2 = append(pr2, dots(p))
			}
		}
		again("pr", orDash(pr2, ","))
		var ps2 []string
		if f[5] != "-" {
			for _, t := range strings.Split(f[5], ",") {
				if p, err := ki.KmerPositionsString(string(hx.Unhex(t))); err != nil {
					ps2 = append(ps2, c10ErrKind(err))
				} else {
					ps2 = append(ps2, dots(p))
				}
			}
		}
		again("ps", orDash(ps2, ","))
		return "ok " + strings.Join(out, " ")
	case "fa", "fe":
		ki, err := c10Dummy(a, k)
		if err == errC10Skip {
			return "skip"
		}
		if err != nil {
			return c10ErrKind(err)
		}
		s := c10Seq(a, hx.Unhex(f[3]))
		if f[0] == "fe" {
			return "ok " + c10Iter(ki, s, hx.Atoi(f[4]), hx.Atoi(f[5]))
		}
		var parts []string
		for start := 0; start <= s.Len()+1; start++ {
			for end := 0; end <= s.Len()+1; end++ {
				parts = append(parts, c10Iter(ki, s, start, end))
			}
		}
		return "ok " + strings.Join(parts, ";")
	case "km":
		w := kmerindex.Kmer(hx.Atoi(f[3]))
		text, err := kmerindex.Format(w, k, a)
		if err != nil {
			return c10ErrKind(err)
		}
		back := "x"
		if b, err := kmerindex.KmerOf(k, a.LetterIndex(), text); err != nil {
			back = c10ErrKind(err)
		} else {
			back = strconv.FormatUint(uint64(b), 10)
		}
		out := fmt.Sprintf("ok fmt=%s back=%s gc=%d comp=%d", hx.Hex([]byte(text)), back,
			math.Float64bits(kmerindex.GCof(k, w)), kmerindex.ComplementOf(k, w))
		if ki, err := c10Dummy(a, k); err == nil {
			mb := "x"
			if b, err := ki.KmerOf(ki.Format(w)); err != nil {
				mb = c10ErrKind(err)
			} else {
				mb = strconv.FormatUint(uint64(b), 10)
			}
			out += fmt.Sprintf(" mfmt=%s mback=%s mgc=%d mcomp=%d", hx.Hex([]byte(ki.Format(w))), mb,
				math.Float64bits(ki.GCof(w)), ki.ComplementOf(w))
		} else {
			out += " mfmt=x mback=x mgc=x mcomp=x"
		}
		return out
	case "ko":
		text := string(hx.Unhex(f[3]))
		res := func(w kmerindex.Kmer, err error) string {
			if err != nil {
				return c10ErrKind(err)
			}
			return strconv.FormatUint(uint64(w), 10)
		}
		out := "ok p=" + res(kmerindex.KmerOf(k, a.LetterIndex(), text))
		if ki, err := c10Dummy(a, k); err == nil {
			out += " m=" + res(ki.KmerOf(text))
		} else {
			out += " m=x"
		}
		return out
	}
	panic("c10: bad input " + input)
}

// ---- generator ----

// letters of the alphabet in either case, and a few that are not in it
func c10Letters(alpha string, upper bool) (valid, invalid string) {
	v := "acgt"
	if alpha == "RNA" {
		v = "acgu"
	}
	if upper {
		v = strings.ToUpper(v)
	}
	return v, "nN-xX*\x00\xff u"
}

func c10RandSeq(g *hx.Gen, alpha string, n int) []byte {
	s := make([]byte, n)
	style := g.Intn(6)
	lo, _ := c10Letters(alpha, false)
	up, inv := c10Letters(alpha, true)
	if alpha == "RNA" {
		inv = "nN-xX*\x00\xff tT"
	}
	// low-complexity sequences make repeated words (long buckets); uniform ones make many words
	nsym := 4
	if style == 0 {
		nsym = 2
	}
	for i := range s {
		c := g.Intn(nsym)
		switch {
		case style == 1:
			s[i] = up[c]
		case style == 2 && g.Chance(0.5):
			s[i] = up[c]
		default:
			s[i] = lo[c]
		}
	}
	if style == 3 && n > 0 { // tandem repeat of a short unit
		u := g.Range(1, 7)
		for i := u; i < n; i++ {
			s[i] = s[i-u]
		}
	}
	// runs of invalid letters at start / middle / end
	run := func(at, l int) {
		for i := at; i < at+l && i < n; i++ {
			if i >= 0 {
				s[i] = inv[g.Intn(len(inv))]
			}
		}
	}
	if g.Chance(0.3) {
		run(0, g.Pick(1, 1, 2, 3, 5, 11))
	}
	if g.Chance(0.3) {
		l := g.Pick(1, 1, 2, 3, 5, 11)
		run(n-l, l)
	}
	for j := g.Pick(0, 0, 1, 1, 2, 3, 6); j > 0 && n > 0; j-- {
		run(g.Intn(n), g.Pick(1, 1, 1, 2, 3, 4, 9))
	}
	return s
}

func c10PickS(g *hx.Gen, xs ...string) string { return xs[g.Intn(len(xs))] }

func c10AlphaName(g *hx.Gen) string {
	switch g.Intn(12) {
	case 0, 1, 2:
		return "RNA"
	case 3:
		if g.Chance(0.3) {
			return "DNAgapped"
		}
	}
	return "DNA"
}

func c10Probes(g *hx.Gen, k int, seq []byte) (string, string) {
	top := 1 << (2 * uint(k))
	probes := []int{0, 1, top - 1, top - 2, top, top + 1}
	for i := 0; i < 4; i++ {
		probes = append(probes, g.Intn(top))
	}
	var texts []string
	for i := 0; i < 3 && len(seq) >= k; i++ {
		p := g.Intn(len(seq) - k + 1)
		t := append([]byte(nil), seq[p:p+k]...)
		for j := range t { // the text API is for ASCII
			if t[j] >= 0x80 {
				t[j] = 'n'
			}
		}
		if g.Chance(0.3) {
			t = []byte(strings.ToUpper(string(t)))
		}
		texts = append(texts, hx.Hex(t))
	}
	texts = append(texts, hx.Hex([]byte(strings.Repeat("a", k))), hx.Hex([]byte(strings.Repeat("t", k))),
		hx.Hex([]byte(strings.Repeat("a", k-1))), hx.Hex([]byte(strings.Repeat("c", k+1))),
		hx.Hex([]byte(strings.Repeat("g", k-1)+"n")))
	return hx.Ints(probes), strings.Join(texts, ",")
}

func c10Gen(g *hx.Gen) {
	const sym = "acgtn"
	// (1) exhaustive short sequences over {a,c,g,t,n}, k = 4: whole index life cycle, and every sub-range
	maxIx := g.Scale(6, 8)
	maxFa := g.Scale(5, 7)
	var rec func(prefix []byte, depth int)
	rec = func(prefix []byte, depth int) {
		if g.Done() {
			return
		}
		n := len(prefix)
		if n <= maxFa {
			g.Casef("fa DNA 4 %s", hx.Hex(prefix))
		}
		if n >= 4 && n <= maxIx {
			g.Casef("ix DNA 4 %s 0,1,255,256 %s", hx.Hex(prefix), hx.Hex(prefix[:4]))
		}
		if n == depth {
			return
		}
		for i := 0; i < len(sym); i++ {
			rec(append(prefix, sym[i]), depth)
		}
	}
	d := maxIx
	if maxFa > d {
		d = maxFa
	}
	rec(nil, d)

	// (2) every word for small k: Format / KmerOf / GCof / ComplementOf
	for k := 2; k <= g.Scale(5, 7); k++ {
		for w := 0; w < 1<<(2*uint(k)); w++ {
			g.Casef("km DNA %d %d", k, w)
		}
	}
	// boundaries of the word type for every k
	for k := 1; k <= 17; k++ {
		top := uint64(1) << (2 * uint(k))
		for _, w := range []uint64{0, 1, 2, 3, top - 1, top - 2, top / 2, top/4 + 1, top, 0xffffffff} {
			if w <= 0xffffffff && k >= 2 {
				g.Casef("km %s %d %d", c10PickS(g, "DNA", "RNA"), k, w)
			}
		}
	}

	// (3) random
	n := g.Scale(5000, 100000)
	for i := 0; i < n && !g.Done(); i++ {
		alpha := c10AlphaName(g)
		k := g.Pick(4, 4, 5, 6, 6, 7, 8, 9, 10)
		if g.Chance(0.04) {
			// k = 11…16 are supported by the package but need a 4^k+1 entry table (up to 16 GiB):
			// the index life cycle is exercised for k ≤ 10 only; larger k only where no table is built
			k = g.Pick(0, 1, 2, 3, 17, 18)
		}
		switch g.Intn(10) {
		case 0, 1, 2, 3: // index life cycle
			ln := g.Pick(0, 3, 4, 5, 6, 9, 17, 40, 100, 300, 1000, 2500, 5000)
			ln = g.Range(ln/2, ln)
			if g.Chance(0.2) {
				ln = k + g.Pick(-1, 0, 1, 2)
				if ln < 0 {
					ln = 0
				}
			}
			if k > 10 && ln > 300 {
				ln = 300
			}
			s := c10RandSeq(g, alpha, ln)
			pr, tx := "-", "-"
			if k >= 1 && k <= 16 {
				pr, tx = c10Probes(g, k, s)
			}
			g.Casef("ix %s %d %s %s %s", alpha, k, hx.Hex(s), pr, tx)
		case 4, 5: // every sub-range of a short sequence
			s := c10RandSeq(g, alpha, g.Range(0, 16))
			g.Casef("fa %s %d %s", alpha, k, hx.Hex(s))
		case 6, 7: // one sub-range of a long sequence
			ln := g.Pick(20, 100, 1000, 5000)
			s := c10RandSeq(g, alpha, g.Range(ln/2, ln))
			start := g.Range(0, len(s))
			end := g.Range(start, len(s))
			switch g.Intn(8) {
			case 0:
				start, end = 0, len(s)
			case 1:
				end = len(s) + g.Pick(1, 2, 50)
			case 2:
				start, end = end, start
			case 3:
				end = start + k + g.Pick(-2, -1, 0, 1)
			case 4:
				start = len(s) - g.Pick(0, 1, k-1, k, k+1)
				if start < 0 {
					start = 0
				}
				end = len(s)
			}
			if end < 0 {
				end = 0
			}
			g.Casef("fe %s %d %s %d %d", alpha, k, hx.Hex(s), start, end)
		case 8: // words
			kk := g.Range(2, 16)
			top := uint64(1) << (2 * uint(kk))
			w := uint64(g.Int63()) % top
			if g.Chance(0.05) {
				w = uint64(g.Int63()) % (1 << 32)
			}
			g.Casef("km %s %d %d", c10PickS(g, "DNA", "RNA"), kk, w)
		case 9: // texts
			kk := g.Range(1, 17)
			lo, inv := c10Letters(alpha, false)
			up, _ := c10Letters(alpha, true)
			ln := kk
			if g.Chance(0.15) {
				ln = kk + g.Pick(-1, 1, 2)
				if ln < 0 {
					ln = 0
				}
			}
			t := make([]byte, ln)
			for j := range t {
				if g.Chance(0.5) {
					t[j] = lo[g.Intn(4)]
				} else {
					t[j] = up[g.Intn(4)]
				}
			}
			if g.Chance(0.2) && ln > 0 {
				c := inv[g.Intn(len(inv))]
				if c >= 0x80 {
					c = 'n'
				}
				t[g.Intn(ln)] = c
			}
			g.Casef("ko %s %d %s", alpha, kk, hx.Hex(t))
		}
	}
}

// ---- regenerated facts: constants of the package as compiled ----

func kmerFacts(repo string) (string, error) {
	var sb strings.Builder
	sb.WriteString("namespace Biogo.Generated.KmerFacts\n\n")
	fmt.Fprintf(&sb, "/-- `8 * unsafe.Sizeof(kmerindex.Kmer(0))` -/\ndef kmerBits : Nat := %d\n", 8*unsafe.Sizeof(kmerindex.Kmer(0)))
	fmt.Fprintf(&sb, "/-- `kmerindex.MinKmerLen` -/\ndef minKmerLen : Nat := %d\n", kmerindex.MinKmerLen)
	fmt.Fprintf(&sb, "/-- `kmerindex.MaxKmerLen` -/\ndef maxKmerLen : Nat := %d\n", kmerindex.MaxKmerLen)
	fmt.Fprintf(&sb, "/-- `8 * unsafe.Sizeof(int(0))` -/\ndef intBits : Nat := %d\n", 8*unsafe.Sizeof(int(0)))
	sb.WriteString("\nend Biogo.Generated.KmerFacts\n")
	return sb.String(), nil
}

func init() {
	hx.Register(&hx.Prop{ID: "C10", Gen: c10Gen, Exec: c10Exec})
	hx.RegisterFacts(hx.FactGen{File: "KmerFacts.lean", Gen: kmerFacts})
}
