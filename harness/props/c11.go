package props

// C11 — external sort, every usage history (sequential mode).
//
// Input        h <chunkSize> <autoClear 0|1> <i|s> <op>*      ops: p<key>[:<tag>]  f  l  c
//              x = Push of a value of another type (must return the type-mismatch error, no-op)
// Observation  one token per op  <res>/<val>/<len>/<pos>
//              res: ok eof fin rej panic err:<hex>;  val: - or <key>:<tag> delivered by Pull.
//
// Element types: `i` = an int type (tag always 0), `s` = a struct whose Less compares the
// key only, so equal keys with different tags are distinguishable duplicates.

import (
	"fmt"
	"io"
	"os"
	"strconv"
	"strings"

	"github.com/biogo/biogo/morass"

	"verif/harness/hx"
)

type mInt int

func (i mInt) Less(j interface{}) bool { return i < j.(mInt) }

type mStruct struct {
	A int
	B int
}

func (i mStruct) Less(j interface{}) bool { return i.A < j.(mStruct).A }

// mOther is a LessInterface of another type than the sorter's elements: `Push` must reject it
// with its "type mismatch" error and change nothing (op `x`).
type mOther string

func (s mOther) Less(j interface{}) bool { return s < j.(mOther) }

// morassErrKind maps an error of the morass API to the observation enum.
func morassErrKind(err error) string {
	switch {
	case err == nil:
		return "ok"
	case err == io.EOF:
		return "eof"
	case strings.Contains(err.Error(), "push on finalised"):
		return "fin"
	case strings.Contains(err.Error(), "type mismatch"):
		return "rej"
	}
	return "err:" + hx.Hex([]byte(err.Error()))
}

type mElem struct{ key, tag int }

func parseMElem(s string) mElem {
	if i := strings.IndexByte(s, ':'); i >= 0 {
		return mElem{hx.Atoi(s[:i]), hx.Atoi(s[i+1:])}
	}
	return mElem{hx.Atoi(s), 0}
}

func morassPush(m *morass.Morass, ty string, e mElem) error {
	if ty == "s" {
		return m.Push(mStruct{e.key, e.tag})
	}
	return m.Push(mInt(e.key))
}

func morassPull(m *morass.Morass, ty string) (mElem, error) {
	if ty == "s" {
		var v mStruct
		err := m.Pull(&v)
		return mElem{v.A, v.B}, err
	}
	var v mInt
	err := m.Pull(&v)
	return mElem{int(v), 0}, err
}

func morassNew(ty string, dir string, chunk int, concurrent bool) (*morass.Morass, error) {
	if ty == "s" {
		return morass.New(mStruct{}, "vm", dir, chunk, concurrent)
	}
	return morass.New(mInt(0), "vm", dir, chunk, concurrent)
}

func c11Exec(input string) string {
	f := hx.Fields(input)
	if f[0] != "h" {
		panic("c11: bad input " + input)
	}
	chunk, ac, ty := hx.Atoi(f[1]), f[2] == "1", f[3]
	base, err := os.MkdirTemp("", "verif-c11-")
	if err != nil {
		panic(err)
	}
	defer os.RemoveAll(base)
	m, err := morassNew(ty, base, chunk, false)
	if err != nil {
		panic(err)
	}
	defer m.CleanUp()
	m.AutoClear = ac
	var out []string
	stop := false
	for _, op := range f[4:] {
		func() {
			defer func() {
				if r := recover(); r != nil {
					out = append(out, "panic/-/0/0")
					stop = true
				}
			}()
			var tok string
			switch op[0] {
			case 'p':
				tok = morassErrKind(morassPush(m, ty, parseMElem(op[1:]))) + "/-"
			case 'f':
				tok = morassErrKind(m.Finalise()) + "/-"
			case 'l':
				v, err := morassPull(m, ty)
				if err == nil {
					tok = fmt.Sprintf("ok/%d:%d", v.key, v.tag)
				} else {
					tok = morassErrKind(err) + "/-"
				}
			case 'c':
				tok = morassErrKind(m.Clear()) + "/-"
			case 'x':
				tok = morassErrKind(m.Push(mOther("x"))) + "/-"
			default:
				panic("c11: bad op " + op)
			}
			out = append(out, tok+"/"+strconv.FormatInt(m.Len(), 10)+"/"+strconv.FormatInt(m.Pos(), 10))
		}()
		if stop {
			break
		}
	}
	if len(out) == 0 {
		return "-"
	}
	return strings.Join(out, " ")
}

// c11Cycle appends one cycle's ops.
func c11Cycle(g *hx.Gen, ops []string, chunk int, ty string, n, pulls int, clear bool, keyRange int) []string {
	for i := 0; i < n; i++ {
		k := g.Intn(keyRange) - keyRange/3
		if ty == "s" {
			ops = append(ops, fmt.Sprintf("p%d:%d", k, g.Intn(4)))
		} else {
			ops = append(ops, fmt.Sprintf("p%d", k))
		}
	}
	ops = append(ops, "f")
	for i := 0; i < pulls; i++ {
		ops = append(ops, "l")
	}
	if clear {
		ops = append(ops, "c")
	}
	return ops
}

func c11Count(g *hx.Gen, c int) int {
	switch g.Intn(8) {
	case 0:
		return 0
	case 1:
		return 1
	case 2:
		if c > 0 {
			return c - 1
		}
		return 0
	case 3:
		return c
	case 4:
		return c + 1
	case 5:
		return 3*c + 2
	case 6:
		return 2 * c
	}
	return g.Intn(4*c + 3)
}

func c11Gen(g *hx.Gen) {
	n := g.Scale(3000, 100000)
	for k := 0; k < n && !g.Done(); k++ {
		// (5, 6, 7, 10: not a small power of two, so a buffer grown by append would have a capacity
		// above the chunk size - seeded change C12-m5)
		chunk := g.Pick(1, 1, 2, 2, 3, 4, 4, 5, 8, 5, 6, 7, 10)
		ac := g.Chance(0.4)
		ty := "i"
		if g.Chance(0.5) {
			ty = "s"
		}
		cycles := g.Range(1, 6)
		keyRange := g.Pick(3, 6, 20, 1000)
		illformed := g.Chance(0.06)
		var ops []string
		// (fourth wave, seeded change C13-m7) a cycle may be ABANDONED with Clear before Finalise:
		// some pushes (on both sides of the chunk size, so with and without run files written),
		// then Clear; the sorter is empty again and the next cycle is a use cycle like any other
		abandon := g.Chance(0.3)
		closed := true
		for cy := 0; cy < cycles; cy++ {
			if abandon && closed && g.Chance(0.35) {
				ops = c11Cycle(g, ops, chunk, ty, c11Count(g, chunk), 0, true, keyRange)
				ops = append(ops[:len(ops)-2:len(ops)-2], "c") // pushes, Clear: no Finalise
			}
			cnt := c11Count(g, chunk)
			var pulls int
			drained := false
			switch g.Intn(6) {
			case 0: // no pulls at all
				pulls = 0
			case 1: // partial
				pulls = g.Intn(cnt + 1)
			case 2: // exactly all values, no EOF seen
				pulls = cnt
			default: // to EOF, sometimes beyond
				pulls = cnt + 1 + g.Pick(0, 0, 0, 1, 2)
				drained = true
			}
			clear := true
			if ac && drained && g.Chance(0.7) {
				clear = false
			}
			if cy == cycles-1 && g.Chance(0.3) {
				clear = false
			}
			ops = c11Cycle(g, ops, chunk, ty, cnt, pulls, clear, keyRange)
			closed = clear || (ac && drained)
		}
		// rejected pushes (a value of another type): a no-op anywhere in the history, in
		// particular when the chunk is exactly full (the next accepted Push, or Finalise, hands
		// it over) and right before Finalise
		if g.Chance(0.3) {
			for r := g.Range(1, 3); r > 0; r-- {
				i := g.Intn(len(ops) + 1)
				if g.Chance(0.5) {
					// at a chunk boundary of some cycle: after k*chunk accepted pushes
					var at []int
					cnt := 0
					for j, op := range ops {
						switch op[0] {
						case 'p':
							cnt++
							if cnt%chunk == 0 {
								at = append(at, j+1)
							}
						case 'c':
							cnt = 0
						}
					}
					if len(at) > 0 {
						i = at[g.Intn(len(at))]
					}
				}
				ops = append(ops[:i:i], append([]string{"x"}, ops[i:]...)...)
			}
		}
		if illformed && len(ops) > 1 {
			// ill-formed usage only ties the model to the code (no statement applies):
			// drop or duplicate one op, or insert a stray one
			i := g.Intn(len(ops))
			switch g.Intn(3) {
			case 0:
				if ops[i] != "l" { // dropping a pull keeps the history well-formed
					ops = append(ops[:i:i], ops[i+1:]...)
				}
			case 1:
				if ops[i] == "f" || ops[i] == "c" {
					ops = append(ops[:i+1:i+1], append([]string{ops[i]}, ops[i+1:]...)...)
				}
			case 2:
				ops = append(ops[:i:i], append([]string{[]string{"c", "f"}[g.Intn(2)]}, ops[i:]...)...)
			}
		}
		g.Casef("h %d %s %s %s", chunk, hx.B(ac), ty, strings.Join(ops, " "))
	}
}

// c11Shrink: drop a whole cycle, one push, or one pull.
func c11Shrink(input string) []string {
	f := hx.Fields(input)
	if len(f) < 5 {
		return nil
	}
	head, ops := f[:4], f[4:]
	var out []string
	emit := func(o []string) {
		if len(o) == 0 {
			return
		}
		out = append(out, strings.Join(head, " ")+" "+strings.Join(o, " "))
	}
	// cycles end at "c"
	start := 0
	for i, op := range ops {
		if op == "c" {
			emit(append(append([]string{}, ops[:start]...), ops[i+1:]...))
			start = i + 1
		}
	}
	for i, op := range ops {
		if op[0] == 'p' || op == "l" || op == "x" {
			emit(append(append([]string{}, ops[:i]...), ops[i+1:]...))
		}
	}
	return out
}

func init() {
	hx.Register(&hx.Prop{ID: "C11", Gen: c11Gen, Exec: c11Exec, Shrink: c11Shrink})
}
