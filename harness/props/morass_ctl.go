package props

// Schedule controller and fault injector for the morass hook points (C12, C13).
//
// Every goroutine that reaches a park point (see morassParkPoints) is held there until the
// controller releases it; the controller releases one actor at a time in the order of a
// schedule and waits until that actor is parked again, has finished, or a watchdog expires
// (= the actor is blocked inside a channel operation / WaitGroup.Wait).  Actor 0 is the
// caller (the goroutine that makes the API calls; it also parks before every call), actor k
// is the k-th background writer, numbered in the order in which they first arrive at
// write.recv (writers are indistinguishable before that step).

import (
	"bytes"
	"errors"
	"io"
	"os"
	"path/filepath"
	"runtime"
	"strconv"
	"strings"
	"sync"
	"sync/atomic"
	"time"

	"github.com/biogo/biogo/morass"

	"verif/harness/hx"
)

var errInjected = errors.New("verif: injected I/O failure")

// Fourth wave: the identity of the injected error is part of the case (seeded change C13-m8: a
// short read classified as the clean end of a run).  kind "" / g = a generic error value,
// u = io.ErrUnexpectedEOF itself (what a reader reports when a file ends inside a value),
// w = an *os.PathError wrapping it (what the os layer hands up).  Every kind is a genuine
// failure of the operation: the model treats them alike.
func morassErrOfKind(kind string) error {
	switch kind {
	case "u":
		return io.ErrUnexpectedEOF
	case "w":
		return &os.PathError{Op: "read", Path: "verif-injected", Err: io.ErrUnexpectedEOF}
	}
	return errInjected
}

// morassReuseAfterError (environment VERIF_MORASS_REUSE=1; never set by ./check) makes the
// caller of a concurrent-mode workload carry on after a reported I/O error as the sequential
// one does: no call until its next Clear, then the next cycle.  This is outside the model and
// outside the statements of C12/C13 (notes/C13.md, "Clear and reuse after a reported error");
// it exists so that the observation recorded there can be reproduced with `harness exec C13`.
var morassReuseAfterError = os.Getenv("VERIF_MORASS_REUSE") == "1"

var morassParkPoints = map[string]bool{
	"op": true, "push.send": true, "push.recv": true, "write.recv": true, "write.register": true,
	"write.encode": true, "write.sync": true, "write.return": true, "finalise.write": true,
	"finalise.wait": true,
}

// hook point -> fault point name of the model
var morassFaultPoints = map[string]string{
	"write.tempfile": "tempfile", "write.encode": "encode", "write.sync.err": "sync",
	"finalise.seek": "seek", "finalise.decode": "fdecode", "pull.decode": "pdecode",
	"clear.close": "close", "clear.remove": "remove",
}

const (
	gRunning = iota
	gParked
	gDone
)

type mGor struct {
	gid     int64
	state   int
	point   string
	release chan struct{}
	blocked bool // was released and did not come back within the watchdog
}

// mFault: the n-th execution (from 0) of point, counted from the moment the fault became armed
// (the start of the run for the first one, the firing of its predecessor for the others).
//
// point "trunc" (fourth wave) is not an error returned by a hook: at the n-th execution of
// finalise.seek the harness cuts 1..3 bytes (kind) off the end of the completed run file that is
// about to be read, so that the gob decoder itself meets a short read.
type mFault struct {
	point string
	n     int
	kind  string
}

// parseMFaults: "-" or <point>:<n>[:<kind>](+<point>:<n>[:<kind>])*
func parseMFaults(fault string) []mFault {
	var fs []mFault
	if fault == "-" || fault == "" {
		return nil
	}
	for _, f := range strings.Split(fault, "+") {
		p := strings.Split(f, ":")
		mf := mFault{point: p[0], n: hx.Atoi(p[1])}
		if len(p) > 2 {
			mf.kind = p[2]
		}
		fs = append(fs, mf)
	}
	return fs
}

type mCtl struct {
	mu         sync.Mutex
	notify     chan struct{}
	gs         map[int64]*mGor
	caller     *mGor
	writers    []*mGor // actor k -> writers[k-1]
	unassigned []*mGor // arrived at write.recv, not yet given an actor number
	free       bool
	faults     []mFault // armed one after the other: only faults[armed] can fire
	armed      int
	counts     map[string]int // executions of each point since the armed fault became armed
	watchdog   time.Duration
	noSuch     int // lowest actor number that did not arrive within the watchdog (0 = none)
	// fourth wave: run files in the order of their creation (for the trunc fault)
	dir        string
	created    []string
	cycleStart int // len(created) when the current cycle began (last successful Clear / AutoClear drain)
	seekInFin  int // finalise.seek executions of the current Finalise
}

var morassCur atomic.Value // *mCtl (nil pointer when no controller is active)

func init() {
	morassCur.Store((*mCtl)(nil))
	morass.VerifHook = func(point string, n int) error {
		c := morassCur.Load().(*mCtl)
		if c == nil {
			return nil
		}
		return c.hook(point)
	}
}

func curGID() int64 {
	var buf [64]byte
	n := runtime.Stack(buf[:], false)
	s := buf[len("goroutine "):n]
	i := bytes.IndexByte(s, ' ')
	id, _ := strconv.ParseInt(string(s[:i]), 10, 64)
	return id
}

func newMCtl(fault string) *mCtl {
	c := &mCtl{notify: make(chan struct{}, 1024), gs: map[int64]*mGor{}, counts: map[string]int{},
		watchdog: 150 * time.Millisecond}
	c.faults = parseMFaults(fault)
	return c
}

// noteCreated (under c.mu): run files that appeared in the directory since the last look.
func (c *mCtl) noteCreated() {
	if c.dir == "" {
		return
	}
	ents, err := os.ReadDir(c.dir)
	if err != nil {
		return
	}
	for _, e := range ents {
		known := false
		for _, n := range c.created {
			if n == e.Name() {
				known = true
				break
			}
		}
		if !known {
			c.created = append(c.created, e.Name())
		}
	}
}

// truncate (under c.mu): cut `bytes` off the end of the run file that the current Finalise is
// about to seek and read (files are read in the order of their registration = creation in
// sequential mode and when every writer runs to its end at once; otherwise some file of the cycle
// that has not been read yet: the last one created).
func (c *mCtl) truncate(bytes int) {
	c.noteCreated()
	i := c.cycleStart + c.seekInFin
	if i >= len(c.created) {
		i = len(c.created) - 1
	}
	if i < 0 {
		return
	}
	p := filepath.Join(c.dir, c.created[i])
	if st, err := os.Stat(p); err == nil && st.Size() > int64(bytes) {
		os.Truncate(p, st.Size()-int64(bytes))
	}
}

// newCycle is called by the caller goroutine when a Clear (explicit or AutoClear) has succeeded.
func (c *mCtl) newCycle() {
	c.mu.Lock()
	c.noteCreated()
	c.cycleStart = len(c.created)
	c.mu.Unlock()
}

// fired: number of faults of the list that have fired so far.
func (c *mCtl) fired() int {
	c.mu.Lock()
	defer c.mu.Unlock()
	return c.armed
}

func (c *mCtl) ping() {
	select {
	case c.notify <- struct{}{}:
	default:
	}
}

func (c *mCtl) hook(point string) error {
	gid := curGID()
	if morassParkPoints[point] {
		c.park(gid, point)
	}
	if point == "write.done" {
		c.mu.Lock()
		if g := c.gs[gid]; g != nil && g != c.caller {
			g.state = gDone
		}
		c.mu.Unlock()
		c.ping()
	}
	if point == "write.tempfile" || point == "finalise.wait" || point == "finalise.seek" {
		c.mu.Lock()
		switch point {
		case "write.tempfile":
			c.noteCreated()
		case "finalise.wait":
			c.seekInFin = 0
		case "finalise.seek":
			if c.armed < len(c.faults) && c.faults[c.armed].point == "trunc" {
				k := c.counts["trunc"]
				c.counts["trunc"]++
				if k == c.faults[c.armed].n {
					b := hx.Atoi(c.faults[c.armed].kind)
					c.truncate(b)
					c.armed++
					c.counts = map[string]int{}
				}
			}
			c.seekInFin++
		}
		c.mu.Unlock()
	}
	if fp, ok := morassFaultPoints[point]; ok {
		c.mu.Lock()
		k := c.counts[fp]
		c.counts[fp]++
		hit := c.armed < len(c.faults) && fp == c.faults[c.armed].point && k == c.faults[c.armed].n
		kind := ""
		if hit {
			kind = c.faults[c.armed].kind
			// the next fault of the list becomes armed; its count starts now
			c.armed++
			c.counts = map[string]int{}
		}
		c.mu.Unlock()
		if hit {
			return morassErrOfKind(kind)
		}
	}
	return nil
}

func (c *mCtl) park(gid int64, point string) {
	c.mu.Lock()
	g := c.gs[gid]
	if g == nil {
		g = &mGor{gid: gid, release: make(chan struct{}, 1)}
		c.gs[gid] = g
		if point == "write.recv" {
			c.unassigned = append(c.unassigned, g)
		}
	}
	if c.free {
		g.state, g.point = gRunning, point
		c.mu.Unlock()
		return
	}
	g.state, g.point = gParked, point
	c.mu.Unlock()
	c.ping()
	<-g.release
}

// registerCaller is called by the caller goroutine before its first park.
func (c *mCtl) registerCaller() {
	gid := curGID()
	c.mu.Lock()
	g := &mGor{gid: gid, release: make(chan struct{}, 1)}
	c.gs[gid] = g
	c.caller = g
	c.mu.Unlock()
}

func (c *mCtl) callerDone() {
	c.mu.Lock()
	c.caller.state = gDone
	c.mu.Unlock()
	c.ping()
}

// waitFor polls cond (under the lock) until it holds or the watchdog expires.
func (c *mCtl) waitFor(d time.Duration, cond func() bool) bool {
	t := time.NewTimer(d)
	defer t.Stop()
	for {
		c.mu.Lock()
		ok := cond()
		c.mu.Unlock()
		if ok {
			return true
		}
		select {
		case <-c.notify:
		case <-t.C:
			c.mu.Lock()
			ok := cond()
			c.mu.Unlock()
			return ok
		}
	}
}

// actor returns the goroutine of an actor number, waiting for a spawned writer to arrive.
func (c *mCtl) actor(a int) *mGor {
	if a == 0 {
		return c.caller
	}
	if c.noSuch > 0 && a >= c.noSuch {
		// a lower-numbered writer already failed to show up within the watchdog; writers are
		// numbered in order of arrival, so this one has not arrived either
		c.mu.Lock()
		n := len(c.writers) + len(c.unassigned)
		c.mu.Unlock()
		if n < a {
			return nil
		}
	}
	defer func() {
		c.mu.Lock()
		if len(c.writers) < a && (c.noSuch == 0 || a < c.noSuch) {
			c.noSuch = a
		}
		c.mu.Unlock()
	}()
	c.waitFor(c.watchdog, func() bool {
		for len(c.writers) < a && len(c.unassigned) > 0 {
			c.writers = append(c.writers, c.unassigned[0])
			c.unassigned = c.unassigned[1:]
		}
		return len(c.writers) >= a
	})
	c.mu.Lock()
	defer c.mu.Unlock()
	if len(c.writers) >= a {
		return c.writers[a-1]
	}
	return nil
}

// step releases one actor for one atomic block: 'r' ran, 'b' blocked, 'x' no such actor.
func (c *mCtl) step(a int) byte {
	g := c.actor(a)
	if g == nil {
		return 'x'
	}
	c.mu.Lock()
	switch {
	case g.state == gDone:
		c.mu.Unlock()
		return 'x'
	case g.state == gRunning && g.blocked:
		c.mu.Unlock()
		return 'b'
	case g.state == gRunning:
		// not yet parked (e.g. a writer that has not reached its first hook): wait for it
		c.mu.Unlock()
		if !c.waitFor(c.watchdog, func() bool { return g.state != gRunning }) {
			return 'b'
		}
		c.mu.Lock()
		if g.state == gDone {
			c.mu.Unlock()
			return 'x'
		}
	}
	g.state = gRunning
	g.blocked = false
	c.mu.Unlock()
	g.release <- struct{}{}
	if c.waitFor(c.watchdog, func() bool { return g.state != gRunning }) {
		return 'r'
	}
	c.mu.Lock()
	g.blocked = true
	c.mu.Unlock()
	return 'b'
}

// freeRun releases everybody; from now on no hook parks.
func (c *mCtl) freeRun() {
	c.mu.Lock()
	c.free = true
	for _, g := range c.gs {
		if g.state == gParked {
			g.state = gRunning
			g.release <- struct{}{}
		}
	}
	c.mu.Unlock()
}

// ---- one workload under a forced schedule ----

type mWork struct {
	conc, ac, aclean bool
	chunk            int
	ty               string
	ops              []string
	sched            []int
	fault            string
	reuse            bool // opts "r": the concurrent caller, too, recovers with Clear after an error
	abandon          bool // ops end with "u": the caller's last call is CleanUp
	trace            bool // C13: a last token tr:<ls>.<fired>,... one entry per completed call
}

func parseMWork(f []string) mWork {
	w := mWork{conc: f[0] == "1", chunk: hx.Atoi(f[1]), ac: f[2] == "1", aclean: f[3] == "1", ty: f[4], fault: f[7]}
	if f[5] != "-" {
		w.ops = strings.Split(f[5], ",")
	}
	if n := len(w.ops); n > 0 && w.ops[n-1] == "u" {
		w.ops, w.abandon = w.ops[:n-1], true
	}
	w.sched = hx.ParseInts(f[6])
	if len(f) > 8 && f[8] == "r" {
		w.reuse = true
	}
	return w
}

// morassRunWork forces the schedule with the short watchdog; when some step was reported
// blocked the whole case is repeated once with a long watchdog, so that a goroutine that was
// merely slow (a loaded machine) is not mistaken for a blocked one.
func morassRunWork(w mWork) string {
	obs := morassRunWorkOnce(w, 150*time.Millisecond)
	if f := strings.Fields(obs); len(f) > 0 && strings.ContainsRune(f[0], 'b') {
		obs = morassRunWorkOnce(w, 800*time.Millisecond)
	}
	return obs
}

func morassRunWorkOnce(w mWork, watchdog time.Duration) string {
	base, err := os.MkdirTemp("", "verif-morass-")
	if err != nil {
		panic(err)
	}
	defer os.RemoveAll(base)
	c := newMCtl(w.fault)
	c.watchdog = watchdog
	m, err := morassNew(w.ty, base, w.chunk, w.conc)
	if err != nil {
		panic(err)
	}
	m.AutoClear, m.AutoClean = w.ac, w.aclean
	ents, _ := os.ReadDir(base)
	if len(ents) != 1 {
		panic("morass: expected exactly one temp dir")
	}
	dir := base + "/" + ents[0].Name()
	c.dir = dir
	var trace []string

	morassCur.Store(c)
	defer morassCur.Store((*mCtl)(nil))

	var out []string
	done := make(chan struct{})
	started := make(chan struct{})
	go func() {
		defer close(done)
		c.registerCaller()
		close(started)
		defer c.callerDone()
		skipping := false // after an I/O error the caller makes no call until its next Clear
		for _, op := range w.ops {
			if skipping && op[0] != 'c' {
				continue
			}
			skipping = false
			c.park(c.caller.gid, "op")
			stop := false
			func() {
				defer func() {
					if r := recover(); r != nil {
						out = append(out, "panic/-/0/0")
						stop = true
					}
				}()
				var tok string
				switch op[0] {
				case 'p':
					tok = morassErrKind(morassPush(m, w.ty, parseMElem(op[1:]))) + "/-"
				case 'f':
					tok = morassErrKind(m.Finalise()) + "/-"
				case 'l':
					v, err := morassPull(m, w.ty)
					if err == nil {
						tok = "ok/" + strconv.Itoa(v.key) + ":" + strconv.Itoa(v.tag)
					} else {
						tok = morassErrKind(err) + "/-"
					}
				case 'c':
					tok = morassErrKind(m.Clear()) + "/-"
				case 'x':
					tok = morassErrKind(m.Push(mOther("x"))) + "/-"
				default:
					panic("morass: bad op " + op)
				}
				if strings.HasPrefix(tok, "err:") {
					skipping = true
					if w.conc && !w.reuse && !morassReuseAfterError {
						// writers of the failed cycle may still be running and Clear does
						// not wait for them: the caller gives up altogether
						stop = true
					}
				}
				out = append(out, tok+"/"+strconv.FormatInt(m.Len(), 10)+"/"+strconv.FormatInt(m.Pos(), 10))
				if (op[0] == 'c' && strings.HasPrefix(tok, "ok/")) || (w.ac && strings.HasPrefix(tok, "eof/")) {
					c.newCycle()
				}
				// the listing of the temporary directory when the call has returned (-1 = the
				// directory does not exist) and the number of injected faults that have fired
				ls := -1
				if ents, err := os.ReadDir(dir); err == nil {
					ls = len(ents)
				}
				trace = append(trace, strconv.Itoa(ls)+"."+strconv.Itoa(c.fired()))
			}()
			if stop {
				break
			}
		}
		if w.abandon {
			// the caller abandons the sort (or reacts to the error that made it give up): CleanUp,
			// whatever the chunk writers are doing
			c.park(c.caller.gid, "op")
			m.CleanUp()
		}
	}()
	<-started
	flags := make([]byte, 0, len(w.sched))
	for _, a := range w.sched {
		flags = append(flags, c.step(a))
	}
	c.freeRun()
	status := "done"
	select {
	case <-done:
	case <-time.After(3 * time.Second):
		status = "deadlock"
	}
	// give background writers a moment to finish (an abandoned sorter is listed when every
	// writer has ended: they are never blocked for good, so this only waits for slow ones)
	settle := 50 * time.Millisecond
	if w.abandon {
		settle = 2 * time.Second
	}
	writersDone := func() bool {
		for _, g := range c.gs {
			if g != c.caller && g.state != gDone {
				return false
			}
		}
		return true
	}
	c.waitFor(settle, writersDone)
	if w.abandon {
		// a writer spawned by the caller's last Push may not have reached its first hook yet
		time.Sleep(5 * time.Millisecond)
		c.waitFor(settle, writersDone)
	}
	disk, dirExists := -1, "0"
	if ents, err := os.ReadDir(dir); err == nil {
		disk, dirExists = len(ents), "1"
	}
	after := "0"
	if status == "done" {
		m.CleanUp()
		if _, err := os.Stat(dir); err == nil {
			after = "1"
		}
	}
	fl := "-"
	if len(flags) > 0 {
		fl = string(flags)
	}
	var outs []string
	if status == "done" {
		outs = out
		if w.trace && len(trace) == len(out) && len(out) > 0 {
			outs = append(append([]string(nil), out...), "tr:"+strings.Join(trace, ","))
		}
	}
	return strings.TrimSpace(fl + " " + status + " " + strconv.Itoa(disk) + " " + dirExists + " " + after + " " + strings.Join(outs, " "))
}
