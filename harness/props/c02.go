package props

// C02 — BED and GFF features survive write-then-read with coordinate conventions.
// (The helpers prefixed fio… are shared with c03_feat.go and c04_feat.go.)
//
// Inputs
//   bed  <N> <w> <r> <chrom> <start> <end> <name> <score> <strand> <ts> <te> <r,g,b,a> <count> <sizes> <starts>
//        a BedN record written by a Writer of width w and read by a Reader of width r
//   gff  <hdr> <seq> <src> <feat> <start> <end> <score> <strand> <frame> <attrs> <comment>
//        score: n | x<16 hex digits of the float64 bits>;  attrs: N (nil) | - (empty) | tag=val,tag=val (hex)
//   reg  <hdr> <kind r|m|g> <name> <start> <end>         ##sequence-region through *Region / WriteMetaData(*Feature) / generic feature
//   iseq <hdr> <width> <mol 0|1|2> <id> <desc> <letters>  inline sequence
//   fl   <16 hex digits>                                 float law sample: ParseFloat(Sprintf("%v",x)) == x
//   bedf <N> <w> <r> {<12 bed tokens>}*                  a file of BedN records: one Writer of width w, one Reader of width r,
//        every record read (and kept) before any is looked at
//   gfff <hdr> {<10 gff tokens>}*                        a file of features: one Writer, one Reader, likewise
//
//   bedx <N> <w> <12 bed tokens>                         one BedN record through a Writer of width w over an io.Writer that
//        accepts exactly k bytes and then fails (short write + error), once for every k = 0..L (L = length of the fault-free text)
//   gffx <hdr> <10 gff tokens>                           one feature likewise (the header, if any, goes to the same failing writer)
//
// Observation (bedx/gffx):  x <L> <hex of the fault-free text> {<n>/<emitted by that Write>/<e: 1 error, 0 none>/<p>}   one token per k;
// p = 1 when all the bytes emitted are the first bytes of the fault-free text.
//
// Observation (bedf/gfff):  <n,...> <emitted,...> <hex of all text> [<ff:..,ff:..>] | <calls> [| <oracles>]
//
// Observation (bed/gff/reg/iseq):  <n reported> <n emitted by that call> <hex of all text> | <calls> | <oracles>
// where <calls> is the outcome of every Read until io.EOF (see fioReadAll).

import (
	"bytes"
	"encoding/csv"
	"fmt"
	"image/color"
	"io"
	"math"
	"sort"
	"strconv"
	"strings"
	"time"
	"unicode"

	"github.com/biogo/biogo/alphabet"
	"github.com/biogo/biogo/feat"
	"github.com/biogo/biogo/io/featio"
	"github.com/biogo/biogo/io/featio/bed"
	"github.com/biogo/biogo/io/featio/gff"
	"github.com/biogo/biogo/seq"
	"github.com/biogo/biogo/seq/linear"

	"verif/harness/hx"
)

func init() {
	hx.Register(&hx.Prop{ID: "C02", Gen: c02Gen, Exec: c02Exec})
}

// ---------------------------------------------------------------------------------
// canonical rendering of what a reader returns

func fioInts(xs []int) string {
	if len(xs) == 0 {
		return "-"
	}
	ss := make([]string, len(xs))
	for i, x := range xs {
		ss[i] = strconv.Itoa(x)
	}
	return strings.Join(ss, ",")
}

func fioHexS(s string) string { return hx.Hex([]byte(s)) }

func fioRec(f feat.Feature) string {
	switch b := f.(type) {
	case *bed.Bed3:
		if b == nil {
			return "nilptr"
		}
		return fmt.Sprintf("b3:%s:%d:%d", fioHexS(b.Chrom), b.ChromStart, b.ChromEnd)
	case *bed.Bed4:
		if b == nil {
			return "nilptr"
		}
		return fmt.Sprintf("b4:%s:%d:%d:%s", fioHexS(b.Chrom), b.ChromStart, b.ChromEnd, fioHexS(b.FeatName))
	case *bed.Bed5:
		if b == nil {
			return "nilptr"
		}
		return fmt.Sprintf("b5:%s:%d:%d:%s:%d", fioHexS(b.Chrom), b.ChromStart, b.ChromEnd, fioHexS(b.FeatName), b.FeatScore)
	case *bed.Bed6:
		if b == nil {
			return "nilptr"
		}
		return fmt.Sprintf("b6:%s:%d:%d:%s:%d:%d", fioHexS(b.Chrom), b.ChromStart, b.ChromEnd, fioHexS(b.FeatName), b.FeatScore, b.FeatStrand)
	case *bed.Bed12:
		if b == nil {
			return "nilptr"
		}
		return fmt.Sprintf("b12:%s:%d:%d:%s:%d:%d:%d:%d:%d,%d,%d,%d:%d:%s:%s", fioHexS(b.Chrom), b.ChromStart, b.ChromEnd,
			fioHexS(b.FeatName), b.FeatScore, b.FeatStrand, b.ThickStart, b.ThickEnd,
			b.Rgb.R, b.Rgb.G, b.Rgb.B, b.Rgb.A, b.BlockCount, fioInts(b.BlockSizes), fioInts(b.BlockStarts))
	case *gff.Feature:
		if b == nil {
			return "nilptr"
		}
		sc := "n"
		if b.FeatScore != nil {
			sc = fmt.Sprintf("x%016x", math.Float64bits(*b.FeatScore))
		}
		at := "-"
		if len(b.FeatAttributes) > 0 {
			var as []string
			for _, a := range b.FeatAttributes {
				as = append(as, fioHexS(a.Tag)+"="+fioHexS(a.Value))
			}
			at = strings.Join(as, ",")
		}
		// Start/End/Len through the interface: this is what C02 says is preserved
		return fmt.Sprintf("f:%s:%s:%s:%d:%d:%s:%d:%d:%s:%s:%d", fioHexS(b.SeqName), fioHexS(b.Source), fioHexS(b.Feature),
			f.Start(), f.End(), sc, b.FeatStrand, b.FeatFrame, at, fioHexS(b.Comments), f.Len())
	case *gff.Region:
		if b == nil {
			return "nilptr"
		}
		return fmt.Sprintf("g:%s:%d:%d:%d:%d", fioHexS(b.SeqName), b.Type, f.Start(), f.End(), f.Len())
	case *linear.Seq:
		if b == nil {
			return "nilptr"
		}
		return fmt.Sprintf("s:%s:%d:%s", fioHexS(b.ID), b.Alpha.Moltype(), hx.Hex(alphabet.LettersToBytes(b.Seq)))
	}
	return fmt.Sprintf("other:%T", f)
}

func fioErr(err error) string {
	if err == io.EOF {
		return "eof"
	}
	switch e := err.(type) {
	case *csv.ParseError:
		at := fmt.Sprintf("%d@%d", e.Column, e.Line)
		switch e.Err {
		case bed.ErrBadStrandField, gff.ErrBadStrandField:
			return "strandfield" + at
		case bed.ErrBadStrand, gff.ErrBadStrand:
			return "strand" + at
		case bed.ErrBadColorField:
			return "color" + at
		case gff.ErrBadTag:
			return "tag" + at
		case gff.ErrFieldMissing:
			return "missing" + at
		case gff.ErrEmptyMetaLine:
			return "emptymeta" + at
		case gff.ErrBadMetaLine:
			return "metaline" + at
		case gff.ErrNotHandled:
			return "nothandled" + at
		case gff.ErrBadSequence:
			return "badseq" + at
		}
		if _, ok := e.Err.(*strconv.NumError); ok {
			return "num" + at
		}
		if ge, ok := e.Err.(gff.Error); ok && strings.Contains(ge.Error(), "zero") {
			return "zero" + at
		}
		return "parse-other:" + fioHexS(e.Err.Error())
	case *time.ParseError:
		return "date"
	}
	if err == gff.ErrBadMoltype {
		return "moltype"
	}
	if err == gff.ErrBadFeature {
		return "badfeature"
	}
	if err == bed.ErrBadBedType {
		return "type"
	}
	s := err.Error()
	if strings.HasPrefix(s, bed.ErrBadBedType.Error()+" at line ") {
		return "type@" + s[len(bed.ErrBadBedType.Error()+" at line "):]
	}
	if strings.HasPrefix(s, bed.ErrMissingBlockValues.Error()+" at line ") {
		return "blocks@" + s[len(bed.ErrMissingBlockValues.Error()+" at line "):]
	}
	return "other:" + fioHexS(s)
}

// fioLineCount is the number of physical lines: LF-terminated ones plus a non-empty tail.
func fioLineCount(data []byte) int {
	n := bytes.Count(data, []byte{'\n'})
	if len(data) > 0 && data[len(data)-1] != '\n' {
		n++
	}
	return n
}

func fioIsNil(f feat.Feature) bool { return f == nil }

// fioReadAll calls Read until io.EOF (at most lines+3 times) and renders every call:
//
//	r:<rec>   a record and a nil error
//	e:<kind>  no record and an error
//	b:<rec>|<kind>   both
//	nn        neither (forbidden by C03)
//	eof       io.EOF; the list stops here.   more  = the cap was reached without io.EOF
//
// A panic inside a call is rendered as the last element "panic:<hex>".
//
// Every returned feature is KEPT and the calls are rendered only after the last one: a record
// a caller holds on to must not change under a later Read (a reader that hands out storage it
// goes on using shows as an earlier record rewritten by a later one).
func fioReadAll(r featio.Reader, lines int) string {
	type call struct {
		f   feat.Feature
		err error
		p   string
	}
	var kept []call
	more := true
	cap := lines + 3
	for i := 0; i < cap && more; i++ {
		f, err, p := fioSafeRead(r)
		kept = append(kept, call{f, err, p})
		if p != "" || err == io.EOF {
			more = false
		}
	}
	var out []string
	for _, c := range kept {
		f, err := c.f, c.err
		switch {
		case c.p != "":
			out = append(out, "panic:"+fioHexS(c.p))
		case err == io.EOF && fioIsNil(f):
			out = append(out, "eof")
		case err == nil && fioIsNil(f):
			out = append(out, "nn")
		case err == nil:
			out = append(out, "r:"+fioRec(f))
		case fioIsNil(f):
			out = append(out, "e:"+fioErr(err))
		default:
			out = append(out, "b:"+fioRec(f)+"|"+fioErr(err))
		}
	}
	if more {
		out = append(out, "more")
	}
	return strings.Join(out, " ")
}

func fioSafeRead(r featio.Reader) (f feat.Feature, err error, p string) {
	defer func() {
		if x := recover(); x != nil {
			p = fmt.Sprint(x)
			if p == "" {
				p = "?"
			}
		}
	}()
	f, err = r.Read()
	return
}

// fioOracles samples the two standard-library parsers the models treat as opaque
// (strconv.ParseFloat and time.Parse with the GFF "astronomical" layout) at every
// tab/newline separated field of the data, so that the model can be run with the same
// function values:  o:<hex>=<bits>,…  d:<hex>,…
func fioOracles(data []byte) string {
	seenF := map[string]bool{}
	seenD := map[string]bool{}
	var fl, dt []string
	for _, line := range bytes.Split(data, []byte{'\n'}) {
		line = bytes.TrimSpace(line)
		for _, f := range bytes.Split(line, []byte{'\t'}) {
			s := string(f)
			if len(s) == 0 || seenF[s] {
				continue
			}
			seenF[s] = true
			if v, err := strconv.ParseFloat(s, 64); err == nil {
				fl = append(fl, hx.Hex(f)+"="+fmt.Sprintf("%016x", math.Float64bits(v)))
			}
		}
		if bytes.HasPrefix(line, []byte("##date ")) {
			s := string(line[len("##date "):])
			if !seenD[s] {
				seenD[s] = true
				if _, err := time.Parse(gff.Astronomical, s); err == nil {
					dt = append(dt, hx.Hex([]byte(s)))
				}
			}
		}
	}
	sort.Strings(fl)
	sort.Strings(dt)
	o, d := "-", "-"
	if len(fl) > 0 {
		o = strings.Join(fl, ",")
	}
	if len(dt) > 0 {
		d = strings.Join(dt, ",")
	}
	return "o:" + o + " d:" + d
}

func fioGffMeta(r *gff.Reader) string {
	return fmt.Sprintf("m:%d:%s:%d:%s", r.Version, fioHexS(r.SourceVersion), r.Type, fioHexS(r.Name))
}

// The readers get the data through one of five io.Reader behaviours chosen from the content
// (sioSource: all at once, one byte per Read, half reads, data together with io.EOF, 4096-byte
// chunks); the reader models do not depend on it (Properties/C04_bufio).
func fioReadBed(data []byte, n int) string {
	r, err := bed.NewReader(sioSource(data), n)
	if err != nil {
		return "newreader:" + fioErr(err)
	}
	return fioReadAll(r, fioLineCount(data))
}

func fioReadGff(data []byte) string {
	r := gff.NewReader(sioSource(data))
	s := fioReadAll(r, fioLineCount(data))
	return s + " " + fioGffMeta(r)
}

// ---------------------------------------------------------------------------------
// building records from inputs

type fioBedIn struct {
	chrom, name       string
	start, end, score int
	strand            int
	ts, te            int
	rgb               color.RGBA
	count             int
	sizes, starts     []int
}

func fioParseBedIn(f []string) fioBedIn {
	var b fioBedIn
	b.chrom = string(hx.Unhex(f[0]))
	b.start, b.end = hx.Atoi(f[1]), hx.Atoi(f[2])
	b.name = string(hx.Unhex(f[3]))
	b.score = hx.Atoi(f[4])
	b.strand = hx.Atoi(f[5])
	b.ts, b.te = hx.Atoi(f[6]), hx.Atoi(f[7])
	c := hx.ParseInts(f[8])
	b.rgb = color.RGBA{R: uint8(c[0]), G: uint8(c[1]), B: uint8(c[2]), A: uint8(c[3])}
	b.count = hx.Atoi(f[9])
	b.sizes, b.starts = hx.ParseInts(f[10]), hx.ParseInts(f[11])
	return b
}

func (b fioBedIn) record(n int) feat.Feature {
	switch n {
	case 3:
		return &bed.Bed3{Chrom: b.chrom, ChromStart: b.start, ChromEnd: b.end}
	case 4:
		return &bed.Bed4{Chrom: b.chrom, ChromStart: b.start, ChromEnd: b.end, FeatName: b.name}
	case 5:
		return &bed.Bed5{Chrom: b.chrom, ChromStart: b.start, ChromEnd: b.end, FeatName: b.name, FeatScore: b.score}
	case 6:
		return &bed.Bed6{Chrom: b.chrom, ChromStart: b.start, ChromEnd: b.end, FeatName: b.name, FeatScore: b.score, FeatStrand: seq.Strand(b.strand)}
	case 12:
		return &bed.Bed12{Chrom: b.chrom, ChromStart: b.start, ChromEnd: b.end, FeatName: b.name, FeatScore: b.score, FeatStrand: seq.Strand(b.strand),
			ThickStart: b.ts, ThickEnd: b.te, Rgb: b.rgb, BlockCount: b.count, BlockSizes: b.sizes, BlockStarts: b.starts}
	}
	panic("bad bed type")
}

func (b fioBedIn) tokens() string {
	return fmt.Sprintf("%s %d %d %s %d %d %d %d %d,%d,%d,%d %d %s %s", fioHexS(b.chrom), b.start, b.end, fioHexS(b.name), b.score, b.strand,
		b.ts, b.te, b.rgb.R, b.rgb.G, b.rgb.B, b.rgb.A, b.count, fioInts(b.sizes), fioInts(b.starts))
}

type fioGffIn struct {
	seqName, source, feature string
	start, end               int
	score                    *float64
	strand, frame            int
	attrsNil                 bool
	attrs                    []gff.Attribute
	comment                  string
}

func fioParseGffIn(f []string) fioGffIn {
	var g fioGffIn
	g.seqName, g.source, g.feature = string(hx.Unhex(f[0])), string(hx.Unhex(f[1])), string(hx.Unhex(f[2]))
	g.start, g.end = hx.Atoi(f[3]), hx.Atoi(f[4])
	if f[5] != "n" {
		bits, err := strconv.ParseUint(f[5][1:], 16, 64)
		if err != nil {
			panic("bad score token " + f[5])
		}
		v := math.Float64frombits(bits)
		g.score = &v
	}
	g.strand, g.frame = hx.Atoi(f[6]), hx.Atoi(f[7])
	switch f[8] {
	case "N":
		g.attrsNil = true
	case "-":
		g.attrs = []gff.Attribute{}
	default:
		for _, tv := range strings.Split(f[8], ",") {
			i := strings.IndexByte(tv, '=')
			g.attrs = append(g.attrs, gff.Attribute{Tag: string(hx.Unhex(tv[:i])), Value: string(hx.Unhex(tv[i+1:]))})
		}
	}
	g.comment = string(hx.Unhex(f[9]))
	return g
}

func (g fioGffIn) record() *gff.Feature {
	f := &gff.Feature{SeqName: g.seqName, Source: g.source, Feature: g.feature, FeatStart: g.start, FeatEnd: g.end,
		FeatScore: g.score, FeatStrand: seq.Strand(g.strand), FeatFrame: gff.Frame(g.frame), Comments: g.comment}
	if !g.attrsNil {
		f.FeatAttributes = gff.Attributes(g.attrs)
		if f.FeatAttributes == nil {
			f.FeatAttributes = gff.Attributes{}
		}
	}
	return f
}

func (g fioGffIn) tokens() string {
	sc := "n"
	if g.score != nil {
		sc = fmt.Sprintf("x%016x", math.Float64bits(*g.score))
	}
	at := "-"
	if g.attrsNil {
		at = "N"
	} else if len(g.attrs) > 0 {
		var as []string
		for _, a := range g.attrs {
			as = append(as, fioHexS(a.Tag)+"="+fioHexS(a.Value))
		}
		at = strings.Join(as, ",")
	}
	return fmt.Sprintf("%s %s %s %d %d %s %d %d %s %s", fioHexS(g.seqName), fioHexS(g.source), fioHexS(g.feature), g.start, g.end, sc,
		g.strand, g.frame, at, fioHexS(g.comment))
}

var fioAlphas = []alphabet.Alphabet{alphabet.DNA, alphabet.RNA, alphabet.Protein}

// a plain feature that is neither *gff.Feature nor *gff.Region (default branch of gff.Writer.Write)
type fioPlain struct {
	name       string
	start, end int
}

func (p fioPlain) Start() int             { return p.start }
func (p fioPlain) End() int               { return p.end }
func (p fioPlain) Len() int               { return p.end - p.start }
func (p fioPlain) Name() string           { return p.name }
func (p fioPlain) Description() string    { return "plain" }
func (p fioPlain) Location() feat.Feature { return nil }

func fioWErr(err error) string {
	switch err {
	case bed.ErrBadBedType:
		return "werr:type"
	case gff.ErrBadFeature:
		return "werr:badfeature"
	case gff.ErrNotHandled:
		return "werr:nothandled"
	}
	return "werr:other:" + fioHexS(err.Error())
}

// float formatting oracle for the writer: the text of "%v" for the score, and the float
// parser at that text
func fioFloatText(score *float64) string {
	if score == nil {
		return "ff:-"
	}
	return "ff:" + fioHexS(fmt.Sprintf("%v", *score))
}

func c02Exec(input string) string {
	f := hx.Fields(input)
	switch f[0] {
	case "bed":
		n, w, r := hx.Atoi(f[1]), hx.Atoi(f[2]), hx.Atoi(f[3])
		b := fioParseBedIn(f[4:])
		var buf bytes.Buffer
		bw, err := bed.NewWriter(&buf, w)
		if err != nil {
			return "newwriter:" + fioErr(err)
		}
		cnt, err := bw.Write(b.record(n))
		if err != nil {
			return fioWErr(err) + " " + strconv.Itoa(cnt) + " " + hx.Hex(buf.Bytes())
		}
		return fmt.Sprintf("%d %d %s | %s", cnt, buf.Len(), hx.Hex(buf.Bytes()), fioReadBed(buf.Bytes(), r))
	case "gff":
		hdr := f[1] == "1"
		g := fioParseGffIn(f[2:])
		var buf bytes.Buffer
		gw := gff.NewWriter(&buf, 60, hdr)
		before := buf.Len()
		cnt, err := gw.Write(g.record())
		if err != nil {
			return fioWErr(err) + " " + strconv.Itoa(cnt) + " " + hx.Hex(buf.Bytes())
		}
		return fmt.Sprintf("%d %d %s %s | %s | %s", cnt, buf.Len()-before, hx.Hex(buf.Bytes()), fioFloatText(g.score),
			fioReadGff(buf.Bytes()), fioOracles(buf.Bytes()))
	case "reg":
		hdr := f[1] == "1"
		name := string(hx.Unhex(f[3]))
		s, e := hx.Atoi(f[4]), hx.Atoi(f[5])
		var buf bytes.Buffer
		gw := gff.NewWriter(&buf, 60, hdr)
		before := buf.Len()
		var cnt int
		var err error
		switch f[2] {
		case "r":
			cnt, err = gw.Write(&gff.Region{Sequence: gff.Sequence{SeqName: name, Type: feat.DNA}, RegionStart: s, RegionEnd: e})
		case "m":
			cnt, err = gw.WriteMetaData(&gff.Feature{SeqName: name, FeatStart: s, FeatEnd: e})
		case "g":
			cnt, err = gw.Write(fioPlain{name, s, e})
		default:
			panic("bad reg kind")
		}
		if err != nil {
			return fioWErr(err) + " " + strconv.Itoa(cnt) + " " + hx.Hex(buf.Bytes())
		}
		return fmt.Sprintf("%d %d %s | %s", cnt, buf.Len()-before, hx.Hex(buf.Bytes()), fioReadGff(buf.Bytes()))
	case "iseq":
		hdr := f[1] == "1"
		width, mol := hx.Atoi(f[2]), hx.Atoi(f[3])
		s := linear.NewSeq(string(hx.Unhex(f[4])), alphabet.BytesToLetters(hx.Unhex(f[6])), fioAlphas[mol])
		s.Desc = string(hx.Unhex(f[5]))
		var buf bytes.Buffer
		gw := gff.NewWriter(&buf, width, hdr)
		before := buf.Len()
		cnt, err := gw.Write(s)
		if err != nil {
			return fioWErr(err) + " " + strconv.Itoa(cnt) + " " + hx.Hex(buf.Bytes())
		}
		return fmt.Sprintf("%d %d %s | %s", cnt, buf.Len()-before, hx.Hex(buf.Bytes()), fioReadGff(buf.Bytes()))
	case "bedf":
		n, w, r := hx.Atoi(f[1]), hx.Atoi(f[2]), hx.Atoi(f[3])
		if (len(f)-4)%12 != 0 {
			panic("c02: bedf tokens not a multiple of twelve")
		}
		var buf bytes.Buffer
		bw, err := bed.NewWriter(&buf, w)
		if err != nil {
			return "newwriter:" + fioErr(err)
		}
		var ns, ds []int
		for i := 4; i+12 <= len(f); i += 12 {
			before := buf.Len()
			cnt, err := bw.Write(fioParseBedIn(f[i : i+12]).record(n))
			if err != nil {
				return fioWErr(err) + " " + strconv.Itoa(cnt) + " " + hx.Hex(buf.Bytes())
			}
			ns, ds = append(ns, cnt), append(ds, buf.Len()-before)
		}
		return fmt.Sprintf("%s %s %s | %s", hx.Ints(ns), hx.Ints(ds), hx.Hex(buf.Bytes()), fioReadBed(buf.Bytes(), r))
	case "gfff":
		hdr := f[1] == "1"
		if (len(f)-2)%10 != 0 {
			panic("c02: gfff tokens not a multiple of ten")
		}
		var buf bytes.Buffer
		gw := gff.NewWriter(&buf, 60, hdr)
		var ns, ds []int
		var ffs []string
		for i := 2; i+10 <= len(f); i += 10 {
			g := fioParseGffIn(f[i : i+10])
			before := buf.Len()
			cnt, err := gw.Write(g.record())
			if err != nil {
				return fioWErr(err) + " " + strconv.Itoa(cnt) + " " + hx.Hex(buf.Bytes())
			}
			ns, ds = append(ns, cnt), append(ds, buf.Len()-before)
			ffs = append(ffs, fioFloatText(g.score))
		}
		ff := "-"
		if len(ffs) > 0 {
			ff = strings.Join(ffs, ",")
		}
		return fmt.Sprintf("%s %s %s %s | %s | %s", hx.Ints(ns), hx.Ints(ds), hx.Hex(buf.Bytes()), ff,
			fioReadGff(buf.Bytes()), fioOracles(buf.Bytes()))
	case "bedx", "gffx":
		var mk func(w io.Writer) (func() (int, error), error)
		if f[0] == "bedx" {
			n, w := hx.Atoi(f[1]), hx.Atoi(f[2])
			b := fioParseBedIn(f[3:])
			mk = func(sink io.Writer) (func() (int, error), error) {
				bw, err := bed.NewWriter(sink, w)
				if err != nil {
					return nil, err
				}
				return func() (int, error) { return bw.Write(b.record(n)) }, nil
			}
		} else {
			hdr := f[1] == "1"
			g := fioParseGffIn(f[2:])
			mk = func(sink io.Writer) (func() (int, error), error) {
				gw := gff.NewWriter(sink, 60, hdr)
				return func() (int, error) { return gw.Write(g.record()) }, nil
			}
		}
		var full bytes.Buffer
		wr, err := mk(&full)
		if err != nil {
			return "newwriter:" + fioErr(err)
		}
		if cnt, err := wr(); err != nil {
			return fioWErr(err) + " " + strconv.Itoa(cnt) + " " + hx.Hex(full.Bytes())
		}
		out := []string{"x", strconv.Itoa(full.Len()), hx.Hex(full.Bytes())}
		for k := 0; k <= full.Len(); k++ {
			lw := &sioLimitWriter{limit: k}
			wr, _ := mk(lw)
			before := lw.buf.Len()
			cnt, err := wr()
			out = append(out, fmt.Sprintf("%d/%d/%s/%s", cnt, lw.buf.Len()-before, hx.B(err != nil), hx.B(bytes.HasPrefix(full.Bytes(), lw.buf.Bytes()))))
		}
		return strings.Join(out, " ")
	case "fl":
		bits, err := strconv.ParseUint(f[1], 16, 64)
		if err != nil {
			panic("bad bits")
		}
		x := math.Float64frombits(bits)
		txt := fmt.Sprintf("%v", x)
		y, err := strconv.ParseFloat(txt, 64)
		if err != nil {
			return fioHexS(txt) + " err"
		}
		return fmt.Sprintf("%s %016x", fioHexS(txt), math.Float64bits(y))
	}
	panic("c02: bad input " + input)
}

// ---------------------------------------------------------------------------------
// generators (shared with C03/C04)

var fioEdgeInts = []int{0, 1, -1, 2, 7, 9, 10, 11, 99, 100, 101, 255, 256, 1000, 65535, 1 << 31, -(1 << 31), 1<<31 - 1,
	math.MaxInt64, math.MaxInt64 - 1, math.MinInt64, math.MinInt64 + 1, -9, -10, -100, 1e18, -1e18, 999999999999999999}

func fioInt(g *hx.Gen) int {
	switch g.Intn(6) {
	case 0:
		return g.Intn(50)
	case 1:
		return -g.Intn(50)
	case 2:
		return fioEdgeInts[g.Intn(len(fioEdgeInts))]
	case 3:
		return int(g.Uint64())
	case 4:
		return g.Intn(2000000)
	}
	return int(g.Int63()>>uint(g.Intn(63))) * (1 - 2*g.Intn(2))
}

const fioTextPool = "abcXYZ019_.:-+|/\\\"'()[]{}<>=,~!@$%^&*?`"

// a well-formed text field: non-empty, no tab/newline, trimmed, not starting with '#';
// sometimes with inner spaces / '#' / ';' / non-ASCII (valid UTF-8) runes
func fioText(g *hx.Gen, inner string) string {
	n := g.Pick(1, 1, 2, 3, 5, 8, 20)
	var sb strings.Builder
	for i := 0; i < n; i++ {
		switch {
		case i > 0 && i < n-1 && g.Chance(0.15) && len(inner) > 0:
			sb.WriteByte(inner[g.Intn(len(inner))])
		case g.Chance(0.08):
			sb.WriteString([]string{"\u00e9", "\u00df", "\u00e0", "\u03a9", "\u4e2d", "\u00a0x", "x\u0085y", "\u2026", "\u2003q"}[g.Intn(9)])
		default:
			sb.WriteByte(fioTextPool[g.Intn(len(fioTextPool))])
		}
	}
	s := sb.String()
	s = strings.TrimSpace(s)
	if s == "" || s[0] == '#' {
		s = "x" + s
	}
	return s
}

func fioChrom(g *hx.Gen) string {
	if g.Chance(0.6) {
		return "chr" + strconv.Itoa(g.Intn(23))
	}
	return fioText(g, " #;")
}

func fioRgb(g *hx.Gen) color.RGBA {
	switch g.Intn(4) {
	case 0:
		return color.RGBA{}
	case 1:
		return color.RGBA{0, 0, 0, 255}
	case 2:
		return color.RGBA{uint8(g.Intn(256)), uint8(g.Intn(256)), uint8(g.Intn(256)), 255}
	}
	return color.RGBA{uint8(g.Pick(0, 1, 255)), uint8(g.Pick(0, 9, 10, 255)), uint8(g.Pick(0, 99, 100, 200)), 255}
}

func fioBed(g *hx.Gen) fioBedIn {
	var b fioBedIn
	b.chrom = fioChrom(g)
	b.name = fioText(g, " #;")
	if g.Chance(0.02) {
		// a physical line longer than bufio's 4096-byte buffer (and than two of them)
		b.name = string(g.Letters("abcXYZ019_.:-+", g.Pick(4050, 4090, 4096, 4100, 5000, 8192, 9000)))
	}
	b.start, b.end, b.score = fioInt(g), fioInt(g), fioInt(g)
	b.strand = g.Intn(3) - 1
	b.ts, b.te = fioInt(g), fioInt(g)
	b.rgb = fioRgb(g)
	b.count = g.Pick(1, 1, 2, 3, 7)
	for i := 0; i < b.count; i++ {
		b.sizes = append(b.sizes, fioInt(g))
		b.starts = append(b.starts, fioInt(g))
	}
	return b
}

var fioFloatEdges = []float64{0, math.Copysign(0, -1), 1, -1, 0.5, 0.1, 0.2, 0.3, 1e-5, 1e-4, 0.0001234, 1e20, 1e21, 1e22, 123456789012345678, 1.5e300,
	math.MaxFloat64, math.SmallestNonzeroFloat64, 2.2250738585072014e-308, 2.225073858507201e-308, math.Inf(1), math.Inf(-1), 100, 1e6, 12345.678, 0.30000000000000004,
	9007199254740993, 5e-324, 1.7976931348623157e308, 4.9406564584124654e-324, 3.14, 99.99, 1e-7, 123456.7}

func fioScore(g *hx.Gen) *float64 {
	var v float64
	switch g.Intn(5) {
	case 0:
		return nil
	case 1:
		v = fioFloatEdges[g.Intn(len(fioFloatEdges))]
	case 2:
		v = math.Float64frombits(g.Uint64())
		if math.IsNaN(v) {
			v = 42
		}
	case 3:
		v = float64(g.Intn(100000)) / float64(g.Pick(1, 10, 100, 1000, 3, 7))
	case 4:
		v = float64(fioInt(g))
	}
	return &v
}

const fioTagPool = "abcdefghijklmnopqrstuvwxyzABCDEFGHIJKLMNOPQRSTUVWXYZ_"

func fioTag(g *hx.Gen) string {
	return string(g.Letters(fioTagPool, g.Pick(1, 1, 2, 4, 9)))
}

// attribute value: trimmed, no ';', tab or newline, may be empty, may contain spaces/quotes
func fioValue(g *hx.Gen) string {
	if g.Chance(0.1) {
		return ""
	}
	if g.Chance(0.3) {
		return "\"" + strings.ReplaceAll(fioText(g, " #"), "\"", "'") + "\""
	}
	return strings.ReplaceAll(fioText(g, " #"), ";", ":")
}

func fioGff(g *hx.Gen) fioGffIn {
	var f fioGffIn
	f.seqName = fioChrom(g)
	f.source = fioText(g, " #;")
	f.feature = fioText(g, " #;")
	// start < end (gff.Writer refuses anything else)
	for {
		f.start, f.end = fioInt(g), fioInt(g)
		if g.Chance(0.3) {
			f.end = f.start + g.Pick(1, 1, 2, 100)
		}
		if f.start < f.end {
			break
		}
		if f.end < f.start {
			f.start, f.end = f.end, f.start
			break
		}
	}
	f.score = fioScore(g)
	f.strand = g.Intn(3) - 1
	f.frame = g.Intn(4) - 1
	k := g.Pick(0, 0, 1, 1, 2, 3, 5)
	if g.Chance(0.02) {
		// a physical line longer than bufio's 4096-byte buffer (and than two of them)
		k = g.Pick(250, 400, 900)
	}
	switch {
	case k == 0 && g.Chance(0.5):
		f.attrsNil = true
	case k == 0:
		f.attrs = []gff.Attribute{}
	default:
		for i := 0; i < k; i++ {
			f.attrs = append(f.attrs, gff.Attribute{Tag: fioTag(g), Value: fioValue(g)})
		}
	}
	if g.Chance(0.4) {
		f.comment = fioText(g, " #;")
	}
	return f
}

var fioWidths = []int{3, 4, 5, 6, 12}

func fioLetters(g *hx.Gen, mol int, n int) []byte {
	return g.Letters(fioAlphas[mol].Letters(), n)
}

func fioName(g *hx.Gen) string {
	return strings.Map(func(r rune) rune {
		if unicode.IsSpace(r) {
			return '_'
		}
		return r
	}, fioText(g, ""))
}

// c02FileGen: files of several records written by one Writer and read by one Reader, every record
// kept until the reader reached io.EOF.  BED12 files come with block counts that decrease
// (3, 2, 1 …: a later record fits into the storage of an earlier one), increase, or are mixed;
// GFF files with attribute lists of decreasing length.
func c02FileGen(g *hx.Gen) {
	k := g.Pick(2, 3, 3, 4, 5)
	if g.Chance(0.6) {
		N := g.Pick(3, 4, 5, 6, 12, 12, 12, 12)
		w, r := N, N
		if g.Chance(0.3) {
			for {
				w = fioWidths[g.Intn(len(fioWidths))]
				if w <= N {
					break
				}
			}
			for {
				r = fioWidths[g.Intn(len(fioWidths))]
				if r <= w {
					break
				}
			}
		}
		mode := g.Intn(3)
		first := g.Pick(2, 3, 3, 4, 7)
		var toks []string
		for i := 0; i < k; i++ {
			b := fioBed(g)
			if len(b.name) > 100 && i > 0 {
				b.name = b.name[:g.Pick(1, 7, 100)]
			}
			cnt := b.count
			switch mode {
			case 0: // strictly decreasing down to one block, then one block each
				cnt = first - i
				if cnt < 1 {
					cnt = 1
				}
			case 1: // increasing
				cnt = 1 + i
			}
			b.count, b.sizes, b.starts = cnt, nil, nil
			for j := 0; j < cnt; j++ {
				b.sizes = append(b.sizes, fioInt(g))
				b.starts = append(b.starts, fioInt(g))
			}
			toks = append(toks, b.tokens())
		}
		g.Casef("bedf %d %d %d %s", N, w, r, strings.Join(toks, " "))
		return
	}
	dec := g.Chance(0.5)
	first := g.Pick(2, 3, 5)
	var toks []string
	for i := 0; i < k; i++ {
		f := fioGff(g)
		if len(f.attrs) > 20 && i > 0 {
			f.attrs = f.attrs[:g.Pick(1, 2, 20)]
		}
		if dec {
			cnt := first - i
			if cnt < 0 {
				cnt = 0
			}
			f.attrsNil, f.attrs = false, []gff.Attribute{}
			for j := 0; j < cnt; j++ {
				f.attrs = append(f.attrs, gff.Attribute{Tag: fioTag(g), Value: fioValue(g)})
			}
		}
		toks = append(toks, f.tokens())
	}
	g.Casef("gfff %s %s", hx.B(g.Chance(0.5)), strings.Join(toks, " "))
}

func c02Gen(g *hx.Gen) {
	// float law samples (trusted base: the assumed law parseFloat (formatFloat x) = x)
	for _, v := range fioFloatEdges {
		g.Casef("fl %016x", math.Float64bits(v))
	}
	nfl := g.Scale(2000, 100000)
	for i := 0; i < nfl && !g.Done(); i++ {
		v := math.Float64frombits(g.Uint64())
		if math.IsNaN(v) {
			continue
		}
		g.Casef("fl %016x", math.Float64bits(v))
	}
	n := g.Scale(6000, 40000)
	for k := 0; k < n && !g.Done(); k++ {
		if g.Chance(0.12) {
			c02FileGen(g)
			continue
		}
		if g.Chance(0.04) {
			// one record through a writer that fails after k bytes, for every k
			if g.Chance(0.5) {
				b := fioBed(g)
				if len(b.name) > 100 {
					b.name = b.name[:20]
				}
				N := fioWidths[g.Intn(len(fioWidths))]
				w := N
				if g.Chance(0.3) {
					w = fioWidths[g.Intn(len(fioWidths))]
				}
				g.Casef("bedx %d %d %s", N, w, b.tokens())
			} else {
				f := fioGff(g)
				if len(f.attrs) > 5 {
					f.attrs = f.attrs[:5]
				}
				g.Casef("gffx %s %s", hx.B(g.Chance(0.5)), f.tokens())
			}
			continue
		}
		switch g.Intn(10) {
		case 0, 1, 2, 3:
			b := fioBed(g)
			// every record type × every write width ≤ N × every read width ≤ w
			for _, N := range fioWidths {
				for _, w := range fioWidths {
					if w > N {
						continue
					}
					for _, r := range fioWidths {
						if r > w {
							continue
						}
						if r != w && g.Chance(0.5) {
							continue
						}
						g.Casef("bed %d %d %d %s", N, w, r, b.tokens())
					}
				}
			}
			if g.Chance(0.05) { // a writer wider than the record is refused
				g.Casef("bed %d %d %d %s", g.Pick(3, 4, 5, 6), 12, 3, b.tokens())
			}
		case 4, 5, 6, 7:
			f := fioGff(g)
			g.Casef("gff %s %s", hx.B(g.Chance(0.5)), f.tokens())
		case 8:
			s := fioInt(g)
			e := fioInt(g)
			if e <= s {
				if s == math.MaxInt64 {
					s--
				}
				e = s + g.Pick(1, 2, 1000)
				if e <= s {
					e = math.MaxInt64
				}
			}
			g.Casef("reg %s %s %s %d %d", hx.B(g.Chance(0.5)), []string{"r", "m", "g"}[g.Intn(3)], fioHexS(fioName(g)), s, e)
		case 9:
			mol := g.Intn(3)
			width := g.Pick(1, 2, 3, 7, 10, 60, 61, 1000)
			ln := g.Pick(1, 2, width-1, width, width+1, 2*width, 2*width+1, 130)
			if ln < 1 {
				ln = 1
			}
			if ln > 3000 {
				ln = 3000
			}
			if g.Chance(0.12) {
				// inline sequence blocks that cross one or more refills of the reader's buffer
				ln = g.Pick(4000, 4095, 4096, 4097, 5000, 8191, 8192, 8193, 12000)
				width = g.Pick(1, 60, 61, 1000, 5000, 20000)
			}
			desc := ""
			if g.Chance(0.3) {
				desc = fioText(g, " ")
			}
			g.Casef("iseq %s %d %d %s %s %s", hx.B(g.Chance(0.5)), width, mol, fioHexS(fioName(g)), fioHexS(desc), hx.Hex(fioLetters(g, mol, ln)))
		}
	}
}
