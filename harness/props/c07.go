package props

// C07 — row and column views of multi-sequence containers stay consistent under edits.
// Inputs and observations: see cont_common.go (tag "h7").
// Grids of 1…6 rows by 0…30 columns, all row offsets for row-stored alignments, histories of
// ≤ 6 edits (AppendColumns, AppendEach with unequal runs, Add, Delete, Flush at either end,
// Truncate/Subseq, Clone then mutate, re-use and later mutation of caller buffers).

import (
	"fmt"
	"strings"

	"verif/harness/hx"
)

var c07Alphabets = []string{"DNA", "DNAgapped", "DNAredundant", "RNA", "RNAgapped", "RNAredundant", "Protein"}

type c07Span struct{ s, e int }

type c07Obj struct {
	kind string
	rows []c07Span
}

func (o *c07Obj) span() (int, int) {
	S, E := 1<<62, -(1 << 62)
	for _, r := range o.rows {
		if r.s < S {
			S = r.s
		}
		if r.e > E {
			E = r.e
		}
	}
	return S, E
}

func c07Pool(alpha string) []byte {
	a := builtinByName(alpha)
	ls := []byte(a.Letters())
	pool := append([]byte(nil), ls...)
	pool = append(pool, ls...) // valid letters twice as likely
	pool = append(pool, byte(a.Gap()), byte(a.Ambiguous()), 'x', 'N')
	return pool
}

func c07Letters(g *hx.Gen, pool []byte, n int, uniform bool) []byte {
	ls := make([]byte, n)
	for i := range ls {
		ls[i] = pool[g.Intn(len(pool))]
	}
	if uniform && n > 0 {
		for i := range ls {
			ls[i] = ls[0]
		}
	}
	return ls
}

func c07Gen(g *hx.Gen) {
	n := g.Scale(5000, 170000)
	for i := 0; i < n && !g.Done(); i++ {
		c07Case(g)
	}
}

func c07Case(g *hx.Gen) {
	alpha := c07Alphabets[g.Intn(len(c07Alphabets))]
	pool := c07Pool(alpha)
	kind := []string{"aln", "qaln", "multi", "multi"}[g.Intn(4)]
	nr := g.Range(1, 6)
	nameCtr := 0
	var rows []seqSpec
	obj := &c07Obj{kind: kind}
	// columns that are unanimous in every row are planted often (consensus law)
	ncols := genLen(g, 30)
	if kind != "multi" && ncols == 0 && g.Chance(0.8) {
		ncols = 1 + g.Intn(5)
	}
	var template []byte
	if g.Chance(0.5) {
		template = c07Letters(g, pool, 40, false)
	}
	rowLetters := func(off, n int) []byte {
		ls := c07Letters(g, pool, n, false)
		if template != nil {
			for j := range ls {
				if p := off + j; p >= 0 && p < len(template) && g.Chance(0.85) {
					ls[j] = template[p]
					if g.Chance(0.2) {
						ls[j] ^= 0x20 // other case
					}
				}
			}
		}
		return ls
	}
	switch kind {
	case "aln", "qaln":
		for r := 0; r < nr; r++ {
			rows = append(rows, seqSpec{q: kind == "qaln", strand: 1, name: nameCtr, ls: rowLetters(0, ncols), qs: genQuals(g, ncols)})
			if ncols > 0 {
				obj.rows = append(obj.rows, c07Span{0, ncols})
			}
			nameCtr++
		}
	default:
		base := g.Pick(0, 0, 0, 2, -3, 9)
		layout := g.Intn(4)
		mixq := g.Intn(3)
		for r := 0; r < nr; r++ {
			var off, n int
			switch layout {
			case 0:
				off, n = base, ncols
			case 1:
				off, n = base, genLen(g, 30)
			case 2:
				n = g.Intn(ncols + 1)
				off = base + ncols - n
			default:
				off, n = base+g.Intn(10), genLen(g, 24)
			}
			q := mixq == 1 || (mixq == 2 && g.Chance(0.5))
			rows = append(rows, seqSpec{q: q, off: off, strand: 1, name: nameCtr, ls: rowLetters(off-base, n), qs: genQuals(g, n)})
			obj.rows = append(obj.rows, c07Span{off, off + n})
			nameCtr++
		}
	}
	objs := []*c07Obj{obj}
	var bufLens []int
	var ops []string
	mkbuf := func(n int) int {
		ops = append(ops, fmt.Sprintf("mkb.%s.%s.%d", hx.Hex(c07Letters(g, pool, n, g.Chance(0.2))), hx.Hex(genQuals(g, n)), g.Pick(0, 0, 1, 4)))
		bufLens = append(bufLens, n)
		return len(bufLens) - 1
	}
	bufOfLen := func(n int) int {
		// re-use an existing buffer of the right length quite often
		if g.Chance(0.4) {
			for tries := 0; tries < 4 && len(bufLens) > 0; tries++ {
				b := g.Intn(len(bufLens))
				if bufLens[b] == n {
					return b
				}
			}
		}
		return mkbuf(n)
	}
	edits := 0
	nedits := g.Range(1, 6)
	emptyAln := func(o *c07Obj) bool { return o.kind != "multi" && (len(o.rows) == 0 || o.rows[0].e == o.rows[0].s) }
	for edits < nedits {
		k := g.Intn(len(objs))
		o := objs[k]
		nrows := len(o.rows)
		switch g.Intn(13) {
		case 0, 1: // AppendColumns
			if emptyAln(o) {
				continue
			}
			nc := g.Pick(1, 1, 2, 3, 0)
			var bs []int
			for c := 0; c < nc; c++ {
				h := nrows
				if g.Chance(0.04) {
					h = nrows + g.Pick(-1, 1)
					if h < 0 {
						h = 0
					}
				}
				bs = append(bs, bufOfLen(h))
			}
			ok := true
			for _, b := range bs {
				if bufLens[b] != nrows {
					ok = false
				}
			}
			ops = append(ops, fmt.Sprintf("ac.%d.%s", k, hx.Ints(bs)))
			if ok {
				for r := range o.rows {
					o.rows[r].e += len(bs)
				}
			}
		case 2, 3: // AppendEach with unequal runs
			if emptyAln(o) {
				continue
			}
			nb := nrows
			if g.Chance(0.04) {
				nb = nrows + g.Pick(-1, 1)
			}
			var bs []int
			mx := 0
			for r := 0; r < nb; r++ {
				l := g.Pick(0, 1, 2, 3, 3, 5)
				if g.Chance(0.3) {
					l = 2
				}
				bs = append(bs, bufOfLen(l))
				if bufLens[bs[r]] > mx {
					mx = bufLens[bs[r]]
				}
			}
			ops = append(ops, fmt.Sprintf("ae.%d.%s", k, hx.Ints(bs)))
			if nb == nrows {
				for r := range o.rows {
					if o.kind == "multi" {
						o.rows[r].e += bufLens[bs[r]]
					} else {
						o.rows[r].e += mx
					}
				}
			}
		case 4: // mutate a caller buffer after it has been used
			if len(bufLens) == 0 {
				continue
			}
			b := g.Intn(len(bufLens))
			if bufLens[b] == 0 {
				continue
			}
			ops = append(ops, fmt.Sprintf("mut.%d.%d.%d.%d", b, g.Intn(bufLens[b]), pool[g.Intn(len(pool))], g.Intn(60)))
		case 5: // Add
			if nrows >= 8 {
				continue
			}
			S, E := o.span()
			if nrows == 0 {
				S, E = 0, 0
			}
			na := g.Pick(1, 1, 2)
			var sp []seqSpec
			for a := 0; a < na; a++ {
				off := S + g.Pick(0, 0, 0, -2, 1, 3)
				ln := E - off + g.Pick(0, 0, 0, -2, 1, 3)
				if ln < 0 {
					ln = 0
				}
				if o.kind != "multi" && g.Chance(0.6) {
					off, ln = S, E-S
				}
				sp = append(sp, seqSpec{q: g.Chance(0.5), off: off, strand: g.Pick(-1, 0, 1), name: nameCtr, ls: c07Letters(g, pool, ln, false), qs: genQuals(g, ln)})
				nameCtr++
				if o.kind == "multi" {
					o.rows = append(o.rows, c07Span{off, off + ln})
				} else if E > S {
					o.rows = append(o.rows, c07Span{S, E})
				}
			}
			ops = append(ops, fmt.Sprintf("add.%d.%s", k, joinSpecs(sp)))
		case 6: // Delete
			if nrows <= 1 || emptyAln(o) {
				continue
			}
			d := g.Intn(nrows)
			ops = append(ops, fmt.Sprintf("del.%d.%d", k, d))
			o.rows = append(o.rows[:d:d], o.rows[d+1:]...)
		case 7, 8: // Flush
			if o.kind != "multi" {
				continue
			}
			wh := g.Pick(1, 2, 3, 3, 0)
			fill := byte(builtinByName(alpha).Gap())
			if g.Chance(0.3) {
				fill = pool[g.Intn(len(pool))]
			}
			ops = append(ops, fmt.Sprintf("fl.%d.%d.%d", k, wh, fill))
			S, E := o.span()
			flushS, flushE := true, true
			for _, r := range o.rows {
				if r.s != o.rows[0].s {
					flushS = false
				}
				if r.e != o.rows[0].e {
					flushE = false
				}
			}
			if nrows > 1 && !((wh&1 == 0 || flushS) && (wh&2 == 0 || flushE)) {
				for r := range o.rows {
					if wh&1 != 0 {
						o.rows[r].s = S
					}
					if wh&2 != 0 {
						o.rows[r].e = E
					}
				}
			}
		case 9, 10: // Truncate / Subseq
			if o.kind != "multi" || nrows == 0 {
				continue
			}
			lo, hi := -(1 << 62), 1<<62 // common coverage
			for _, r := range o.rows {
				if r.s > lo {
					lo = r.s
				}
				if r.e < hi {
					hi = r.e
				}
			}
			var s, e int
			covered := lo <= hi
			if covered && g.Chance(0.85) {
				s = lo + g.Intn(hi-lo+1)
				e = s + g.Intn(hi-s+1)
			} else {
				S, E := o.span()
				s = S + g.Intn(E-S+2) - 1
				e = s + g.Intn(6) - 1
				covered = lo <= s && s <= e && e <= hi
			}
			if g.Chance(0.5) {
				ops = append(ops, fmt.Sprintf("tr.%d.%d.%d", k, s, e))
				if covered {
					for r := range o.rows {
						o.rows[r] = c07Span{s, e}
					}
				} else {
					// rows before the first failing one are truncated; stop editing this history
					edits = nedits
				}
			} else {
				ops = append(ops, fmt.Sprintf("sub.%d.%d.%d", k, s, e))
				if covered {
					c := &c07Obj{kind: "multi"}
					for range o.rows {
						c.rows = append(c.rows, c07Span{s, e})
					}
					objs = append(objs, c)
				}
			}
		case 11: // Clone
			if len(objs) >= 3 {
				continue
			}
			ops = append(ops, fmt.Sprintf("cl.%d", k))
			objs = append(objs, &c07Obj{kind: o.kind, rows: append([]c07Span(nil), o.rows...)})
		default: // Set through the row view (after Clone / Subseq this is the mutation that must stay private)
			if nrows == 0 || emptyAln(o) {
				continue
			}
			r := g.Intn(nrows)
			if o.rows[r].e <= o.rows[r].s {
				continue
			}
			pos := o.rows[r].s + g.Intn(o.rows[r].e-o.rows[r].s)
			ops = append(ops, fmt.Sprintf("st.%d.%d.%d.%d.%d", k, r, pos, pool[g.Intn(len(pool))], g.Intn(60)))
		}
		edits++
	}
	g.Casef("h7 %s %s 1 %s %s", alpha, kind, joinSpecs(rows), strings.Join(ops, " "))
}

func init() {
	hx.Register(&hx.Prop{ID: "C07", Gen: c07Gen, Exec: contExec, Shrink: contShrink})
}
