package props

// Usage history for the six aligners (C08 and C09, parts lin and aff).
//
// The properties are statements about ONE call of Align, whatever the process did before.  A
// caller aligns many pairs with one aligner value and one scoring matrix, and may edit that
// matrix in place between calls (other scores, a row cut or extended).  The executors
// therefore give about half of the cases a history, chosen by a hash of the input line so
// that a case replays exactly (as c14Warm does):
//
//   1. a warm-up Align with the SAME [][]int object (same outer backing array, same backing
//      array per row) holding DIFFERENT numbers, through the same aligner value and the same
//      sequence objects; its result is discarded;
//   2. the entries are overwritten IN PLACE with the case's matrix (rows cut or extended in
//      place to the case's shape);
//   3. the real call(s), whose result is the observation.
//
// The models are stateless: on a correct implementation the observation does not depend on
// the warm-up.  VERIF_ALN_WARM=0 / 1 switches the history off / on for every case (debugging
// and the self-test "same observations with and without history"); unset = by hash.

import (
	"os"
)

// alnHistory says, from the input line alone, which history a case gets.
type alnHistory struct {
	warm bool
	// shape of the warm-up matrix relative to the case's matrix of R rows:
	//   0  R rows, every row of length R: the case's shape when that is square, otherwise the
	//      well-formed square that the case's ragged / wide / short-rowed matrix is cut or
	//      extended from (the outer slice header is identical in both calls)
	//   1  a square with more rows, cut in place to the case's rows
	//   2  a square with fewer rows, extended in place (within the capacity) to the case's rows
	shape int
	// useQ: (part lin, mode LL) the warm-up call is made on the QLetters objects instead of the
	// Letters objects — the two generated files of an aligner are separate functions
	useQ bool
	// seqs: what the SAME sequence objects hold during the warm-up call
	//   alnSeqsSame       the case's letters
	//   alnSeqsCut        their first half: the slices are cut in place and restored before the
	//                     real call (a smaller dynamic programming table of another geometry)
	//   alnSeqsStretched  the case's letters followed by a copy of their first half, within the
	//                     capacity of the same backing array; the real call sees the slices cut
	//                     back in place (a larger table of another geometry came first)
	seqs int
}

const (
	alnSeqsSame = iota
	alnSeqsCut
	alnSeqsStretched
)

func alnHistoryOf(input string) alnHistory {
	h := uint32(2166136261)
	for i := 0; i < len(input); i++ {
		h = (h ^ uint32(input[i])) * 16777619
	}
	h ^= h >> 15
	hist := alnHistory{warm: h&1 == 1, useQ: h&16 != 0}
	switch (h >> 5) & 3 {
	case 0:
		hist.seqs = alnSeqsSame
	case 1:
		hist.seqs = alnSeqsCut
	default:
		hist.seqs = alnSeqsStretched
	}
	switch (h >> 1) & 7 {
	case 0, 1, 2, 3: // half of the histories keep the number of rows (same slice header)
		hist.shape = 0
	case 4, 5:
		hist.shape = 1
	default:
		hist.shape = 2
	}
	switch os.Getenv("VERIF_ALN_WARM") {
	case "0":
		hist.warm = false
	case "1":
		hist.warm = true
	}
	return hist
}

// alnMatrixObject is ONE [][]int — one outer backing array and one backing array per row —
// that first holds the warm-up numbers and is then overwritten in place with the case's matrix.
type alnMatrixObject struct {
	outer [][]int // at full capacity: max(rows of the warm-up, rows of the case)
	rows  [][]int // every row at full capacity
	want  [][]int
	w     int // rows (= columns) of the warm-up matrix
}

// alnWarmEntry is the warm-up number at [i][j]: never the case's entry (when it has one).
func alnWarmEntry(want [][]int, i, j int) int {
	base := -1
	switch {
	case i < len(want) && j < len(want[i]):
		base = want[i][j]
	case i == j && i > 0:
		base = 1
	case i == 0 && j == 0:
		base = 0
	}
	return base + 1 + (i+2*j)%3
}

// newAlnMatrixObject allocates the object for the case's matrix want and fills it with the
// warm-up matrix: a w x w square, every entry different from the case's entry at that place.
func newAlnMatrixObject(want [][]int, shape int) *alnMatrixObject {
	r := len(want)
	w := r
	switch {
	case r == 0:
		w = 3 // nothing to share with an empty matrix but the (then empty) outer slice
	case shape == 1:
		w = r + 1 + r%2
	case shape == 2 && r >= 2:
		w = r - 1
	case shape == 2:
		w = r + 1
	}
	n := r
	if w > n {
		n = w
	}
	o := &alnMatrixObject{outer: make([][]int, n), rows: make([][]int, n), want: want, w: w}
	for i := range o.rows {
		c := w
		if i < r && len(want[i]) > c {
			c = len(want[i])
		}
		o.rows[i] = make([]int, c)
		for j := range o.rows[i] {
			o.rows[i][j] = alnWarmEntry(want, i, j)
		}
		o.outer[i] = o.rows[i][:w]
	}
	return o
}

// warmup is the view of the object the warm-up call gets: w rows of w entries.
func (o *alnMatrixObject) warmup() [][]int { return o.outer[:o.w] }

// settle overwrites the object in place with the case's matrix and returns the view of it
// the real call gets: the same outer backing array (for shape 0 the identical slice header),
// every row the same backing array as in the warm-up, cut or extended to the case's length.
// Entries beyond a cut row keep the warm-up numbers, as after an in-place truncation.
func (o *alnMatrixObject) settle() [][]int {
	for i, row := range o.want {
		o.outer[i] = o.rows[i][:len(row)]
		copy(o.outer[i], row)
	}
	return o.outer[:len(o.want)]
}

// alnCut is the length a sequence of n letters is cut to for the warm-up (alnSeqsCut).
func alnCut(n int) int {
	if n < 2 {
		return n
	}
	return (n + 1) / 2
}

// alnStretched returns b followed by a copy of its first half (at least one letter; nothing
// for an empty b).  The executors build every sequence object on such a backing array and
// hand the aligner its first len(b) letters; the alnSeqsStretched warm-up sees all of it.
func alnStretched(b []byte) []byte {
	out := make([]byte, 0, len(b)+alnCut(len(b)))
	out = append(out, b...)
	return append(out, b[:alnCut(len(b))]...)
}

// alnWarmLen is the length of the slice a sequence object holds during the warm-up call,
// given the length n of the case's sequence and the capacity c of its backing array.
func alnWarmLen(seqs, n, c int) int {
	switch seqs {
	case alnSeqsCut:
		return alnCut(n)
	case alnSeqsStretched:
		return c
	}
	return n
}

// alnQuiet runs f and swallows a panic: nothing of a warm-up call is observed.
func alnQuiet(f func()) {
	defer func() { recover() }()
	f()
}
