package props

// Schedule controller for C19 (runs inside the child process `harness c19child`).
//
// Actors are goroutines of the code under test (Processor workers) or of the harness
// (producer, collector, stopper, waiter; one goroutine per Promise call).  An actor parks
// at a hook point (concurrent.VerifHook for points inside the package, park() in harness
// code).  The controller releases one parked actor per schedule step and then waits for
// quiescence: every actor is parked, finished, or blocked in the runtime (channel
// operation, mutex, condition variable, wait group), which is read off the goroutine
// dump.  No timing is involved in deciding that an actor is blocked.

import (
	"runtime"
	"strconv"
	"strings"
	"sync"
	"time"
)

const (
	stRunning = iota
	stParked
	stDone
)

type ctlActor struct {
	idx   int
	goid  int64
	state int
	point string
	gate  chan struct{}
}

type controller struct {
	mu     sync.Mutex
	actors []*ctlActor
	byGoid map[int64]*ctlActor
	free   bool
}

var curCtl *controller // set while a forced case runs (cases run one at a time)

func goid() int64 {
	var buf [64]byte
	n := runtime.Stack(buf[:], false)
	// "goroutine 123 [running]:"
	f := strings.Fields(string(buf[:n]))
	id, _ := strconv.ParseInt(f[1], 10, 64)
	return id
}

func newController(n int) *controller {
	c := &controller{byGoid: map[int64]*ctlActor{}}
	for i := 0; i < n; i++ {
		c.actors = append(c.actors, &ctlActor{idx: i, state: stRunning, gate: make(chan struct{})})
	}
	return c
}

// parkAt is called by the actor's own goroutine.
func (c *controller) parkAt(a *ctlActor, point string) {
	c.mu.Lock()
	if c.free {
		c.mu.Unlock()
		return
	}
	a.state = stParked
	a.point = point
	c.mu.Unlock()
	<-a.gate
}

// hook is installed as concurrent.VerifHook.
func (c *controller) hook(point string, id int) {
	g := goid()
	c.mu.Lock()
	if c.free {
		c.mu.Unlock()
		return
	}
	a := c.byGoid[g]
	if a == nil && point == "worker.start" && id >= 0 && id < len(c.actors) && c.actors[id].goid == 0 {
		a = c.actors[id]
		a.goid = g
		c.byGoid[g] = a
	}
	c.mu.Unlock()
	if a == nil {
		// a goroutine that does not belong to this case: hold it for ever
		select {}
	}
	c.parkAt(a, point)
}

// spawn starts a harness actor; f receives a park function.
func (c *controller) spawn(idx int, f func(park func())) {
	a := c.actors[idx]
	ready := make(chan struct{})
	go func() {
		g := goid()
		c.mu.Lock()
		a.goid = g
		c.byGoid[g] = a
		c.mu.Unlock()
		close(ready)
		f(func() { c.parkAt(a, "P") })
		c.mu.Lock()
		a.state = stDone
		c.mu.Unlock()
	}()
	<-ready
}

var blockedStatus = map[string]bool{
	"chan receive": true, "chan send": true, "select": true, "select (no cases)": true,
	"chan receive (nil chan)": true, "chan send (nil chan)": true,
	"sync.Mutex.Lock": true, "sync.RWMutex.Lock": true, "sync.RWMutex.RLock": true,
	"sync.Cond.Wait": true, "semacquire": true, "sync.WaitGroup.Wait": true,
}

var dumpBuf = make([]byte, 1<<16)

// goroutineStatuses parses the full goroutine dump: goid -> wait reason.
func goroutineStatuses() map[int64]string {
	for {
		n := runtime.Stack(dumpBuf, true)
		if n < len(dumpBuf) {
			m := map[int64]string{}
			s := string(dumpBuf[:n])
			for len(s) > 0 {
				if strings.HasPrefix(s, "goroutine ") {
					rest := s[len("goroutine "):]
					sp := strings.IndexByte(rest, ' ')
					if sp > 0 {
						id, err := strconv.ParseInt(rest[:sp], 10, 64)
						lb := strings.IndexByte(rest, '[')
						rb := strings.IndexByte(rest, ']')
						if err == nil && lb >= 0 && rb > lb {
							st := rest[lb+1 : rb]
							if c := strings.IndexByte(st, ','); c >= 0 {
								st = st[:c]
							}
							m[id] = st
						}
					}
				}
				// skip to the next block (blank line)
				nx := strings.Index(s, "\n\n")
				if nx < 0 {
					break
				}
				s = s[nx+2:]
			}
			return m
		}
		dumpBuf = make([]byte, 2*len(dumpBuf))
	}
}

// quiesce waits until no actor can move; false after the watchdog interval.
//
// The actors' flags are read before and after a goroutine dump.  If no flag changed
// across the dump and every actor flagged running was blocked in the dump, then at the
// instant of the dump nobody was able to move: parked and finished actors do nothing
// more, and a blocked goroutine can only be woken by a goroutine that moves.
func (c *controller) quiesce() bool {
	deadline := time.Now().Add(5 * time.Second)
	before := make([]int, len(c.actors))
	confirmed := 0
	for spin := 0; ; spin++ {
		c.mu.Lock()
		running := 0
		for i, a := range c.actors {
			before[i] = a.state
			if a.state == stRunning {
				running++
			}
		}
		c.mu.Unlock()
		if running == 0 {
			// everybody is parked at a hook point or has finished: nothing can move
			return true
		}
		if spin < 3 {
			// give the released actor a chance to reach its next hook point before the
			// (comparatively expensive) goroutine dump
			runtime.Gosched()
			continue
		}
		snap := goroutineStatuses()
		c.mu.Lock()
		quiet := true
		for i, a := range c.actors {
			if a.state != before[i] {
				quiet = false
				break
			}
			if a.state != stRunning {
				continue
			}
			if a.goid == 0 {
				quiet = false // not started yet
				break
			}
			st, ok := snap[a.goid]
			if !ok {
				a.state = stDone // the goroutine has exited; look again
				quiet = false
				break
			}
			if !blockedStatus[st] {
				quiet = false
				break
			}
		}
		c.mu.Unlock()
		if quiet {
			// confirm: two consecutive quiet snapshots (a goroutine that has just been
			// readied may still be listed with its old wait reason for an instant)
			confirmed++
			if confirmed >= 2 {
				return true
			}
			runtime.Gosched()
			continue
		}
		confirmed = 0
		if time.Now().After(deadline) {
			return false
		}
		if spin < 50 {
			runtime.Gosched()
		} else {
			time.Sleep(50 * time.Microsecond)
		}
	}
}

func (c *controller) parked(k int) bool {
	c.mu.Lock()
	defer c.mu.Unlock()
	return k < len(c.actors) && c.actors[k].state == stParked
}

// release lets a parked actor go and waits for quiescence.
func (c *controller) release(k int) bool {
	c.mu.Lock()
	a := c.actors[k]
	a.state = stRunning
	c.mu.Unlock()
	a.gate <- struct{}{}
	return c.quiesce()
}

// status letters: parked -> letter(point), running (= blocked, after quiescence) -> B, done -> D
func (c *controller) statusVec(letter func(point string) byte) string {
	c.mu.Lock()
	defer c.mu.Unlock()
	b := make([]byte, len(c.actors))
	for i, a := range c.actors {
		switch a.state {
		case stParked:
			b[i] = letter(a.point)
		case stDone:
			b[i] = 'D'
		default:
			b[i] = 'B'
		}
	}
	return string(b)
}

// runSchedule performs the schedule, then drains: the lowest parked actor of `order`
// is released until none is parked. Returns the trace and false on a watchdog timeout.
func (c *controller) runSchedule(sched []int, order []int, letter func(string) byte) ([]string, bool) {
	var trace []string
	step := func(k int) bool {
		if !c.parked(k) {
			return true
		}
		if !c.release(k) {
			return false
		}
		trace = append(trace, c.statusVec(letter))
		return true
	}
	for _, k := range sched {
		if !step(k) {
			return trace, false
		}
	}
	for {
		next := -1
		for _, k := range order {
			if c.parked(k) {
				next = k
				break
			}
		}
		if next < 0 {
			return trace, true
		}
		if !step(next) {
			return trace, false
		}
	}
}

// finish switches to free running: hooks no longer park, parked actors are let go.
func (c *controller) finish() {
	c.mu.Lock()
	c.free = true
	var gates []chan struct{}
	for _, a := range c.actors {
		if a.state == stParked {
			a.state = stRunning
			gates = append(gates, a.gate)
		}
	}
	c.mu.Unlock()
	for _, g := range gates {
		g <- struct{}{}
	}
}
