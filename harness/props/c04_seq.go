package props

// C04, part "seq" — FASTA/FASTQ records do not depend on line layout or terminators.
//
// Inputs
//   fa4 <tags> <hex A> <hex B>
//   fq4 <tmpl> <tags> <hex A> <hex B>     tmpl = s or the numeric encoding of the QSeq template
//
// A is a valid file: well-formed records of C01 written by the repository's writer.  B is A
// in another layout, produced here from the same records: sequence lines re-wrapped (FASTA;
// fixed widths 1…20000, random chunk sizes, one single line), blank lines inserted (FASTA:
// anywhere; FASTQ: between records, before the first and after the last), blanks appended
// to lines, CRLF terminators (all or some), final terminator dropped.  <tags> names the
// transformations that were applied (comma separated; "same" if none).
//
// Observation: <call history of A> | <call history of B>

import (
	"bytes"
	"fmt"
	"hash/fnv"
	"strings"

	"github.com/biogo/biogo/alphabet"

	"verif/harness/hx"
)

func init() {
	hx.Register(&hx.Prop{ID: "C04", Part: "seq", Ops: []string{"fa4", "fq4"}, Gen: c04seqGen, Exec: c04seqExec})
}

func c04seqExec(input string) string {
	f := hx.Fields(input)
	switch f[0] {
	case "fa4":
		return sioReadFasta(hx.Unhex(f[2]), "s", alphabet.DNA) + " | " + sioReadFasta(hx.Unhex(f[3]), "s", alphabet.DNA)
	case "fq4":
		typ, enc := "q", alphabet.Sanger
		if f[1] == "s" {
			typ = "s"
		} else {
			enc = sioEnc(f[1])
		}
		return sioReadFastq(hx.Unhex(f[3]), typ, alphabet.DNA, enc) + " | " + sioReadFastq(hx.Unhex(f[4]), typ, alphabet.DNA, enc)
	}
	panic("c04seq: bad input " + input)
}

// layout choices of one re-rendering
type c04seqLayout struct {
	g        *hx.Gen
	blank    float64 // probability of blank lines at an eligible site
	trail    float64 // probability of trailing blanks on a line
	crlf     float64 // probability that a line ends in CRLF
	nofinal  bool
	tags     map[string]bool
	out      bytes.Buffer
	lastTerm int // length of the terminator written last
}

func (l *c04seqLayout) term() {
	if l.g.Chance(l.crlf) {
		l.out.WriteString("\r\n")
		l.lastTerm = 2
		l.tags["crlf"] = true
	} else {
		l.out.WriteByte('\n')
		l.lastTerm = 1
	}
}

func (l *c04seqLayout) blanks() {
	for l.g.Chance(l.blank) {
		l.out.WriteString(sioPickS(l.g, "", "", " ", "\t", " \t ", "\v", "\f"))
		l.term()
		l.tags["blank"] = true
	}
}

func (l *c04seqLayout) line(content []byte) {
	l.out.Write(content)
	if l.g.Chance(l.trail) {
		l.out.WriteString(sioPickS(l.g, " ", "\t", "  ", " \t", "\v", "\f", " \r", "\r"))
		l.tags["trail"] = true
	}
	l.term()
}

func (l *c04seqLayout) finish() []byte {
	b := l.out.Bytes()
	if l.nofinal && l.lastTerm > 0 && len(b) >= l.lastTerm {
		b = b[:len(b)-l.lastTerm]
		l.tags["nofinal"] = true
	}
	return b
}

func (l *c04seqLayout) tagList() string {
	var ts []string
	for _, t := range []string{"wrap", "blank", "trail", "crlf", "nofinal", "buffer-multiple", "boundary"} {
		if l.tags[t] {
			ts = append(ts, t)
		}
	}
	if len(ts) == 0 {
		return "same"
	}
	return strings.Join(ts, ",")
}

func c04seqNewLayout(g *hx.Gen) *c04seqLayout {
	l := &c04seqLayout{g: g, tags: map[string]bool{}}
	if g.Chance(0.5) {
		l.blank = float64(g.Pick(10, 30, 50)) / 100
	}
	if g.Chance(0.5) {
		l.trail = float64(g.Pick(10, 50, 100)) / 100
	}
	switch g.Intn(4) {
	case 0:
		l.crlf = 1
	case 1:
		l.crlf = 0.5
	}
	l.nofinal = g.Chance(0.4)
	return l
}

func sioHeader(prefix byte, r sioRec) []byte {
	h := append([]byte{prefix}, r.name...)
	if len(r.desc) > 0 {
		h = append(append(h, ' '), r.desc...)
	}
	return h
}

func c04seqFasta(g *hx.Gen) {
	alpha := sioAlphabets[g.Intn(len(sioAlphabets))]
	width := sioWidth(g)
	rs := sioRecords(g, alpha, width, false, alphabet.Sanger, 4)
	l := c04seqNewLayout(g)
	mode := g.Intn(5)
	if g.Chance(0.08) && len(rs) > 0 {
		// the last physical line fills bufio's buffer exactly (a multiple of 4096 bytes)
		k := g.Pick(4096, 4096, 8192, 12288)
		last := &rs[len(rs)-1]
		last.letters = g.Letters(sioLetterPool(alpha), k+g.Pick(0, 0, 7, 60, 4096))
		mode = 5
		l.nofinal = g.Chance(0.8)
		l.tags["buffer-multiple"] = true
	}
	a := sioWriteFasta(rs, "s", alpha, width)
	neww := sioWidth(g)
	for i, r := range rs {
		l.blanks()
		l.line(sioHeader('>', r))
		rest := r.letters
		for len(rest) > 0 {
			var k int
			switch mode {
			case 0: // keep the width
				k = width
			case 1: // another fixed width
				k = neww
				l.tags["wrap"] = true
			case 2: // one line
				k = len(rest)
				l.tags["wrap"] = true
			case 3: // random chunks
				k = g.Pick(1, 2, 3, 10, 60, 100, 4095, 4096, 4097, 9000)
				l.tags["wrap"] = true
			case 4:
				k = g.Range(1, len(rest))
				l.tags["wrap"] = true
			case 5: // the last line is a multiple of 4096 bytes long
				k = len(rest) % 4096
				if k == 0 || i != len(rs)-1 {
					k = len(rest)
				}
				l.tags["wrap"] = true
			}
			if k > len(rest) {
				k = len(rest)
			}
			l.blanks()
			if mode == 5 && i == len(rs)-1 && k == len(rest) {
				// no trailing blanks on the buffer-sized line
				l.out.Write(rest[:k])
				l.term()
			} else {
				l.line(rest[:k])
			}
			rest = rest[k:]
		}
	}
	if g.Chance(0.5) {
		l.blanks()
	}
	b := l.finish()
	g.Casef("fa4 %s %s %s", l.tagList(), hx.Hex(a), hx.Hex(b))
}

func c04seqFastq(g *hx.Gen) {
	alpha := sioAlphabets[g.Intn(len(sioAlphabets))]
	typ, tmpl := "q", ""
	enc := sioPhredEncodings[g.Intn(len(sioPhredEncodings))]
	if g.Chance(0.3) {
		typ, tmpl, enc = "s", "s", alphabet.Sanger
	} else {
		tmpl = fmt.Sprint(int(enc))
	}
	rs := sioRecords(g, alpha, g.Pick(1, 50, 100, 4096), typ == "q", enc, 4)
	l := c04seqNewLayout(g)
	if g.Chance(0.08) && len(rs) > 0 {
		k := g.Pick(4096, 4096, 8192)
		last := &rs[len(rs)-1]
		last.letters = g.Letters(sioLetterPool(alpha), k)
		if typ == "q" {
			last.quals = sioQuals(g, enc, k)
		}
		l.nofinal = g.Chance(0.8)
		l.trail = 0
		l.tags["buffer-multiple"] = true
	}
	qid := g.Chance(0.5)
	a := sioWriteFastq(rs, typ, alpha, enc, qid)
	for _, r := range rs {
		l.blanks()
		l.line(sioHeader('@', r))
		l.line(r.letters)
		if qid {
			l.line(sioHeader('+', r))
		} else {
			l.line([]byte("+"))
		}
		q := make([]byte, len(r.letters))
		for i := range q {
			if typ == "q" {
				q[i] = alphabet.Qphred(r.quals[i]).Encode(enc)
			} else {
				q[i] = alphabet.Qphred(40).Encode(alphabet.Sanger)
			}
		}
		l.line(q)
	}
	if g.Chance(0.5) {
		l.blanks()
	}
	b := l.finish()
	g.Casef("fq4 %s %s %s %s", tmpl, l.tagList(), hx.Hex(a), hx.Hex(b))
}

// c04seqBoundary: physical lines (sequence line, quality line, header line) whose content is
// exactly L bytes, L around one and two buffer sizes of bufio.NewReader, LF or CRLF, the long
// line last (with and without its terminator) or followed by another record, through each of
// the five io.Reader behaviours of sioSource (the record name is varied until the content
// hash selects the wanted one).
var c04seqBoundaryLens = []int{4094, 4095, 4096, 4097, 4098, 8190, 8191, 8192, 8193, 8194}

func c04seqHashClass(data []byte) int {
	h := fnv.New32a()
	h.Write(data)
	return int(h.Sum32() % 5)
}

func c04seqBoundary(g *hx.Gen) {
	pool := sioLetterPool("DNA")
	for _, L := range c04seqBoundaryLens {
		for _, term := range []string{"\n", "\r\n"} {
			for _, final := range []bool{true, false} {
				for class := 0; class < 5; class++ {
					for _, fastqStyle := range []bool{false, true} {
						headerLong := g.Chance(0.2)
						second := g.Chance(0.4)
						for k := 0; ; k++ {
							r := sioRec{name: fmt.Sprintf("n%d", k), letters: g.Letters(pool, L)}
							if headerLong {
								r.name = fmt.Sprintf("n%d", k) + string(g.Letters("abcXYZ019", L-1-len(fmt.Sprintf("n%d", k))))
								r.letters = g.Letters(pool, g.Pick(0, 1, 50))
							}
							rs := []sioRec{r}
							if second {
								rs = append(rs, sioRec{name: "z", desc: "d e", letters: g.Letters(pool, 7)})
							}
							var lines [][]byte
							enc := alphabet.Sanger
							for i := range rs {
								if fastqStyle {
									rs[i].quals = sioQuals(g, enc, len(rs[i].letters))
									q := make([]byte, len(rs[i].letters))
									for j := range q {
										q[j] = alphabet.Qphred(rs[i].quals[j]).Encode(enc)
									}
									lines = append(lines, sioHeader('@', rs[i]), rs[i].letters, []byte("+"), q)
								} else {
									lines = append(lines, sioHeader('>', rs[i]))
									if len(rs[i].letters) > 0 {
										lines = append(lines, rs[i].letters)
									}
								}
							}
							b := bytes.Join(lines, []byte(term))
							if final {
								b = append(b, term...)
							}
							if c04seqHashClass(b) != class && k < 60 {
								continue
							}
							tags := "wrap,boundary"
							if term == "\r\n" {
								tags += ",crlf"
							}
							if !final {
								tags += ",nofinal"
							}
							if fastqStyle {
								if !final && len(rs[len(rs)-1].letters) == 0 {
									break // an empty last quality line vanishes with the terminator: other family
								}
								a := sioWriteFastq(rs, "q", "DNA", enc, false)
								g.Casef("fq4 %d %s %s %s", int(enc), tags, hx.Hex(a), hx.Hex(b))
							} else {
								a := sioWriteFasta(rs, "s", "DNA", 60)
								g.Casef("fa4 %s %s %s", tags, hx.Hex(a), hx.Hex(b))
							}
							break
						}
					}
				}
			}
		}
	}
}

func c04seqGen(g *hx.Gen) {
	c04seqBoundary(g)
	n := g.Scale(8000, 150000)
	for k := 0; k < n && !g.Done(); k++ {
		if g.Chance(0.55) {
			c04seqFasta(g)
		} else {
			c04seqFastq(g)
		}
	}
}
