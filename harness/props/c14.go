package props

// C14 — PALS q-gram filter completeness.
//
// Input
//   fl <k> <n> <e> <off> <self> <comp> <target> <query>
//      k = word size, n = MinMatch, e = MaxError, off = TubeOffset, self/comp = the two flags of
//      Filter; target and query in hex ("=" as query: the target sequence itself).
//   fln <k> <n> <e> <off> <self> <comp> <target> <query>
//      the same run; the generator of this op puts letters outside the alphabet (runs of n) into
//      the query and the target, which `fl` never does (C14 is stated for sequences over A,C,G,T;
//      `fln` is the same statement with a letter outside the alphabet counted as a mismatch).
// Observation
//   ok <from.to.diagonal,...>     the hits pulled back from the morass, sorted
//   err:index:<kind> | err:offset | err:iter | err:other:<hex>
//
// The filter is driven as align/pals/pals.go drives it: kmerindex.New + Build, filter.New,
// Filter(query, self, comp, morass), then Pull until io.EOF.

import (
	"fmt"
	"go/ast"
	"go/parser"
	"go/printer"
	"go/token"
	"io"
	"path/filepath"
	"sort"
	"strconv"
	"strings"
	"time"

	"github.com/biogo/biogo/alphabet"
	"github.com/biogo/biogo/align/pals/filter"
	"github.com/biogo/biogo/index/kmerindex"
	"github.com/biogo/biogo/morass"

	"verif/harness/hx"
)

func c14Exec(input string) (obs string) {
	// a run-time panic of the filter (TubeOffset = 0 divides by zero) is one observation, whatever its text
	defer func() {
		if r := recover(); r != nil {
			obs = "err:panic"
		}
	}()
	f := hx.Fields(input)
	k, n, e, off := hx.Atoi(f[1]), hx.Atoi(f[2]), hx.Atoi(f[3]), hx.Atoi(f[4])
	self, comp := f[5] == "1", f[6] == "1"
	target := c10Seq(alphabet.DNA, hx.Unhex(f[7]))
	query := target
	if f[8] != "=" {
		query = c10Seq(alphabet.DNA, hx.Unhex(f[8]))
	}
	ki, err := kmerindex.New(k, target)
	if err != nil {
		return "err:index:" + strings.TrimPrefix(c10ErrKind(err), "err:")
	}
	ki.Build()
	flt := filter.New(ki, &filter.Params{WordSize: k, MinMatch: n, MaxError: e, TubeOffset: off})
	m, err := morass.New(filter.Hit{}, "verif-c14-", "", 1<<14, false)
	if err != nil {
		return "err:other:" + hx.Hex([]byte(err.Error()))
	}
	defer m.CleanUp()
	// Usage history: PALS scans both strands (and callers scan many queries) with ONE Filter.
	// Half of the cases (chosen by a hash of the input, so a case replays exactly) first run a
	// warm-up scan of another query through the same Filter and discard its hits; the property
	// is per scan, so the observation must not depend on what the Filter did before.
	if c14Warm(input) {
		if mw, werr := morass.New(filter.Hit{}, "verif-c14w-", "", 1<<14, false); werr == nil {
			src := f[8]
			if src == "=" {
				src = f[7]
			}
			wl := append([]byte(nil), hx.Unhex(src)...)
			for i, j := 0, len(wl)-1; i < j; i, j = i+1, j-1 {
				wl[i], wl[j] = wl[j], wl[i]
			}
			func() {
				defer func() { recover() }()
				flt.Filter(c10Seq(alphabet.DNA, wl), false, false, mw)
			}()
			mw.CleanUp()
		}
	}
	if err := flt.Filter(query, self, comp, m); err != nil {
		switch {
		case strings.Contains(err.Error(), "TubeOffset < MaxError"):
			return "err:offset"
		case strings.Contains(err.Error(), "index out of range"), strings.Contains(err.Error(), "out of range"):
			return "err:iter"
		}
		return "err:other:" + hx.Hex([]byte(err.Error()))
	}
	var hits []filter.Hit
	for {
		var h filter.Hit
		if err := m.Pull(&h); err != nil {
			if err != io.EOF {
				return "err:other:" + hx.Hex([]byte(err.Error()))
			}
			break
		}
		hits = append(hits, h)
	}
	m.Clear()
	sort.Slice(hits, func(i, j int) bool {
		a, b := hits[i], hits[j]
		if a.From != b.From {
			return a.From < b.From
		}
		if a.To != b.To {
			return a.To < b.To
		}
		return a.Diagonal < b.Diagonal
	})
	parts := make([]string, len(hits))
	for i, h := range hits {
		parts[i] = strconv.Itoa(h.From) + "." + strconv.Itoa(h.To) + "." + strconv.Itoa(h.Diagonal)
	}
	return "ok " + orDash(parts, ",")
}

// c14Warm decides, from the input alone, whether the scan is preceded by a warm-up scan.
func c14Warm(input string) bool {
	h := uint32(2166136261)
	for i := 0; i < len(input); i++ {
		h = (h ^ uint32(input[i])) * 16777619
	}
	return h&1 == 1
}

// ---- generator ----

func c14Rand(g *hx.Gen, n int, nsym int) []byte {
	const l = "acgt"
	s := make([]byte, n)
	for i := range s {
		s[i] = l[g.Intn(nsym)]
	}
	return s
}

// copy src[a:a+L] to dst[b:b+L] with `subs` substitutions at random columns
func c14Plant(g *hx.Gen, src, dst []byte, a, b, L, subs int) {
	const l = "acgt"
	if a < 0 || b < 0 || a+L > len(src) || b+L > len(dst) || L <= 0 {
		return
	}
	copy(dst[b:b+L], src[a:a+L])
	for ; subs > 0; subs-- {
		i := b + g.Intn(L)
		c := l[g.Intn(4)]
		for c == dst[i] {
			c = l[g.Intn(4)]
		}
		dst[i] = c
	}
}

func c14RevComp(s []byte) []byte {
	r := make([]byte, len(s))
	for i, c := range s {
		var d byte
		switch c {
		case 'a':
			d = 't'
		case 'c':
			d = 'g'
		case 'g':
			d = 'c'
		case 't':
			d = 'a'
		default:
			d = c
		}
		r[len(s)-1-i] = d
	}
	return r
}

type c14Par struct{ k, n, e, off int }

func c14Params(g *hx.Gen) c14Par {
	k := g.Pick(4, 4, 5, 6, 6, 7, 8)
	e := g.Pick(0, 0, 1, 1, 1, 2, 2, 3)
	base := k * (e + 1) // threshold = n + 1 - base
	n := base + g.Pick(0, 0, 1, 2, 3, 5, 8, 13, 20)
	offs := []int{e, e + 1, 1, 2, 3, 5, 8, k - 1, k, k + 1, 2 * k, 16, 32, e + 32, 64}
	off := offs[g.Intn(len(offs))]
	if off < e {
		off = e
	}
	if off < 1 {
		off = 1
	}
	return c14Par{k, n, e, off}
}

func c14Case(g *hx.Gen, p c14Par, self, comp bool, t, q []byte) {
	qs := hx.Hex(q)
	if q == nil {
		qs = "="
	}
	g.Casef("fl %d %d %d %d %s %s %s %s", p.k, p.n, p.e, p.off, hx.B(self), hx.B(comp), hx.Hex(t), qs)
}

func c14Gen(g *hx.Gen) {
	c14GenFl(g)
	c14GenN(g)
}

func c14GenFl(g *hx.Gen) {
	total := g.Scale(1500, 15000)
	for i := 0; i < total && !g.Done(); i++ {
		p := c14Params(g)
		if g.Chance(0.03) { // parameters outside the property: non-positive threshold, offset < e, offset 0
			switch g.Intn(3) {
			case 0:
				p.n = p.k*(p.e+1) - g.Pick(1, 2, 5)
				if p.n < 1 {
					p.n = 1
				}
			case 1:
				p.e = p.off + 1
				p.n = p.k*(p.e+1) + 3
			case 2:
				p.off = 0
				p.e = 0
			}
		}
		size := g.Pick(30, 60, 100, 100, 200, 400, 400, 1000, 2500, 5000)
		if !g.Thorough() && size > 1000 && g.Chance(0.7) {
			size = 400
		}
		tl := g.Range(size/2, size)
		ql := g.Range(size/2, size)
		if g.Chance(0.03) {
			ql = g.Pick(0, 1, p.k-2, p.k-1, p.k, p.k+1)
			if ql < 0 {
				ql = 0
			}
		}
		nsym := 4
		if g.Chance(0.1) {
			nsym = 2 // low complexity: many common k-mers, long runs in every tube
		}
		t := c14Rand(g, tl, nsym)
		mode := g.Intn(8)
		switch {
		case mode == 0: // self comparison with planted internal repeats
			for j := g.Pick(1, 2, 4); j > 0; j-- {
				L := p.n + g.Pick(0, 0, 1, 3, 10, 40)
				a, b := g.Intn(tl), g.Intn(tl)
				if g.Chance(0.5) { // just above the main diagonal, where the self-comparison cut acts
					b = a + g.Pick(1, 1, 2, 3, p.k, p.n)
				}
				c14Plant(g, t, t, a, b, L, g.Range(0, p.e+1))
			}
			if g.Chance(0.3) { // a tandem repeat: matches on every diagonal that is a multiple of the period
				u := g.Pick(1, 2, 3, 5)
				from := g.Intn(tl)
				for i := from + u; i < tl && i < from+4*p.n; i++ {
					t[i] = t[i-u]
				}
			}
			c14Case(g, p, true, false, t, nil)
		case mode == 1: // complemented self comparison, as PALS.Align(true) drives it
			// Inverted repeats: t[y:y+L] = revcomp(t[x:x+L]). Against revcomp(t) this is the match
			// (a,b) = (y, tl-x-L) and its mirror image (x, tl-y-L), one on each side of the
			// anti-diagonal a+b = tl on which the self-comparison cut of this strand acts.
			for j := g.Pick(1, 2, 4); j > 0; j-- {
				L := p.n + g.Pick(0, 0, 1, 3, 10, 40)
				x, y := g.Intn(tl), g.Intn(tl)
				if g.Chance(0.5) { // arms adjacent or overlapping (hairpin without loop): on and next to the anti-diagonal
					y = x + L + g.Pick(-p.n, -p.k, -3, -2, -1, 0, 0, 0, 1, 2, 3, p.k)
				}
				if x >= 0 && y >= 0 && x+L <= tl && y+L <= tl {
					rc := c14RevComp(t[x : x+L])
					c14Plant(g, rc, t, 0, y, L, g.Range(0, p.e+1))
				}
			}
			if g.Chance(0.25) { // a stretch that is its own reverse complement: (at)* or (acgt)*
				u := []string{"at", "acgt", "ta", "gc"}[g.Intn(4)]
				from := g.Intn(tl)
				for i := from; i < tl && i < from+4*p.n; i++ {
					t[i] = u[(i-from)%len(u)]
				}
			}
			if g.Chance(0.8) {
				c14Case(g, p, true, true, t, c14RevComp(t))
			} else {
				// the flags alone (the query is not the reverse complement): segments planted on, just
				// above and just below the anti-diagonal
				q := c14Rand(g, ql, nsym)
				for j := g.Pick(1, 2, 3); j > 0 && ql > 0; j-- {
					L := p.n + g.Pick(0, 0, 1, 5)
					a := g.Intn(tl)
					b := tl - a + g.Pick(-p.n, -p.k, -2, -1, 0, 0, 0, 1, 2, p.k)
					c14Plant(g, t, q, a, b, L, g.Range(0, p.e))
				}
				c14Case(g, p, true, true, t, q)
			}
		default:
			q := c14Rand(g, ql, nsym)
			for j := g.Pick(0, 1, 1, 2, 3, 6); j > 0 && tl > 0 && ql > 0; j-- {
				L := p.n + g.Pick(0, 0, 0, 1, 2, 5, 20, 100)
				a, b := g.Intn(tl), g.Intn(ql)
				switch g.Intn(6) {
				case 0: // at the very end of the query / target
					b = ql - L
				case 1:
					a = tl - L
				case 2:
					a, b = 0, g.Intn(ql)
				case 3: // near the end of the query: the region the last tick and the final flush handle
					b = ql - L - g.Intn(3*p.off+p.k+2)
				}
				subs := g.Range(0, p.e)
				if g.Chance(0.2) {
					subs = p.e + 1
				}
				if L > p.n {
					subs = subs * (1 + L/p.n)
				}
				c14Plant(g, t, q, a, b, L, subs)
			}
			if g.Chance(0.1) { // either case
				q = []byte(strings.ToUpper(string(q)))
			}
			c14Case(g, p, false, g.Chance(0.1), t, q)
		}
	}
}

// c14NRuns overwrites a few stretches of s with n: single letters, runs around the word size, and
// runs around the tube offset and the tube width (what the ticker has to step over).
func c14NRuns(g *hx.Gen, s []byte, p c14Par) {
	if len(s) == 0 {
		return
	}
	for j := g.Pick(1, 1, 2, 3, 5); j > 0; j-- {
		l := g.Pick(1, 1, 2, p.k-1, p.k, p.k+1, p.off, p.off+p.e, p.off+p.e+1, 2*p.off+1, 3*p.off+p.k, 5*p.off)
		if l < 1 {
			l = 1
		}
		at := g.Intn(len(s))
		switch g.Intn(6) {
		case 0:
			at = 0
		case 1:
			at = len(s) - l
		}
		for i := at; i < at+l && i < len(s); i++ {
			if i >= 0 {
				s[i] = 'n'
			}
		}
	}
}

// c14GenN: pairs with letters outside the alphabet (op fln).
func c14GenN(g *hx.Gen) {
	total := g.Scale(500, 5000)
	for i := 0; i < total && !g.Done(); i++ {
		p := c14Params(g)
		size := g.Pick(30, 60, 100, 100, 200, 400, 400, 1000)
		tl := g.Range(size/2, size)
		ql := g.Range(size/2, size)
		nsym := 4
		if g.Chance(0.1) {
			nsym = 2
		}
		t := c14Rand(g, tl, nsym)
		q := c14Rand(g, ql, nsym)
		nq := g.Chance(0.85)
		if nq {
			c14NRuns(g, q, p) // before planting: matches start right after (and end right before) a run
		}
		for j := g.Pick(1, 1, 2, 3, 6); j > 0; j-- {
			L := p.n + g.Pick(0, 0, 0, 1, 2, 5, 20)
			a, b := g.Intn(tl), g.Intn(ql)
			switch g.Intn(5) {
			case 0:
				b = ql - L
			case 1:
				b = ql - L - g.Intn(3*p.off+p.k+2)
			}
			c14Plant(g, t, q, a, b, L, g.Range(0, p.e))
		}
		if nq && g.Chance(0.5) {
			c14NRuns(g, q, p) // after planting: runs inside matches, at the very end of the query
		}
		if g.Chance(0.3) {
			c14NRuns(g, t, p)
		}
		self, comp := false, g.Chance(0.1)
		if g.Chance(0.1) {
			self = true // the flags alone, both cuts
		}
		g.Casef("fln %d %d %d %d %s %s %s %s", p.k, p.n, p.e, p.off, hx.B(self), hx.B(comp), hx.Hex(t), hx.Hex(q))
	}
}

func c14Shrink(input string) []string {
	f := hx.Fields(input)
	if len(f) != 9 {
		return nil
	}
	t := hx.Unhex(f[7])
	var out []string
	mk := func(t, q []byte, same bool) {
		qs := "="
		if !same {
			qs = hx.Hex(q)
		}
		out = append(out, strings.Join(append(append([]string{}, f[:7]...), hx.Hex(t), qs), " "))
	}
	cuts := func(s []byte) [][]byte {
		var r [][]byte
		n := len(s)
		for _, c := range []int{n / 2, n / 4, n / 8, 16, 4, 1} {
			if c > 0 && c < n {
				r = append(r, s[c:], s[:n-c])
			}
		}
		return r
	}
	if f[8] == "=" {
		for _, c := range cuts(t) {
			mk(c, nil, true)
		}
		return out
	}
	q := hx.Unhex(f[8])
	for _, c := range cuts(t) {
		mk(c, q, false)
	}
	for _, c := range cuts(q) {
		mk(t, c, false)
	}
	return out
}

// ---- regenerated facts: which retirement rule the source has ----

func filterFacts(repo string) (string, error) {
	fset := token.NewFileSet()
	file, err := parser.ParseFile(fset, filepath.Join(repo, "align", "pals", "filter", "filter.go"), nil, 0)
	if err != nil {
		return "", err
	}
	rhs := map[string]string{} // "<func>.<var>" -> printed right-hand side of its := definition
	for _, d := range file.Decls {
		fd, ok := d.(*ast.FuncDecl)
		if !ok || fd.Body == nil {
			continue
		}
		ast.Inspect(fd.Body, func(n ast.Node) bool {
			as, ok := n.(*ast.AssignStmt)
			if !ok || as.Tok != token.DEFINE || len(as.Lhs) != 1 || len(as.Rhs) != 1 {
				return true
			}
			id, ok := as.Lhs[0].(*ast.Ident)
			if !ok {
				return true
			}
			var sb strings.Builder
			printer.Fprint(&sb, fset, as.Rhs[0])
			rhs[fd.Name.Name+"."+id.Name] = strings.Join(strings.Fields(sb.String()), "")
			return true
		})
	}
	pick := func(key string, variants map[string]bool) (bool, error) {
		got, ok := rhs[key]
		if !ok {
			return false, fmt.Errorf("filter.go: definition of %s not found", key)
		}
		v, ok := variants[got]
		if !ok {
			return false, fmt.Errorf("filter.go: %s := %s is not a modelled variant", key, got)
		}
		return v, nil
	}
	retire, err := pick("tubeEnd.diagIndex", map[string]bool{
		"f.diagIndex(f.target.Len()-1,q-1)":            false,
		"f.diagIndex(f.target.Len()-1,q-1)-f.maxError": true,
	})
	if err != nil {
		return "", err
	}
	flush, err := pick("Filter.diagFrom", map[string]bool{
		"f.diagIndex(f.target.Len()-1,query.Len()-1)-tubeWidth":     false,
		"f.diagIndex(f.target.Len()-1,query.Len()-f.k)-f.maxError": true,
	})
	if err != nil {
		return "", err
	}
	// the ticker: which of the two modelled forms the scan has
	compact := func(n ast.Node) string {
		var sb strings.Builder
		printer.Fprint(&sb, fset, n)
		return strings.Join(strings.Fields(sb.String()), "")
	}
	var filterBody []string // the statements of Filter
	var callback []string   // the statements of the function literal handed to ForEachKmerOf
	for _, d := range file.Decls {
		fd, ok := d.(*ast.FuncDecl)
		if !ok || fd.Body == nil || fd.Name.Name != "Filter" {
			continue
		}
		for _, st := range fd.Body.List {
			filterBody = append(filterBody, compact(st))
		}
		ast.Inspect(fd.Body, func(n ast.Node) bool {
			ce, ok := n.(*ast.CallExpr)
			if !ok || len(ce.Args) != 4 || !strings.HasSuffix(compact(ce.Fun), ".ForEachKmerOf") {
				return true
			}
			if fl, ok := ce.Args[3].(*ast.FuncLit); ok {
				for _, st := range fl.Body.List {
					callback = append(callback, compact(st))
				}
			}
			return true
		})
	}
	has := func(list []string, want string) bool {
		for _, x := range list {
			if x == want {
				return true
			}
		}
		return false
	}
	const (
		kmerLoop    = "fori:=from;i<to;i++{f.commonKmer(ki.PosAt(i),position)}"
		countdown   = "ifticker--;ticker==0{ife:=f.tubeEnd(position);e!=nil{panic(e)}ticker=f.tubeOffset}"
		tickFunc    = "func(passedint)error{for;ticker<=passed;ticker+=f.tubeOffset{iferr:=f.tubeEnd(ticker-1);err!=nil{returnerr}}returnnil}"
		tickInCall  = "ife:=tick(position);e!=nil{panic(e)}"
		tickAtEnd   = "err=tick(query.Len()-f.k+1)"
		finalRetire = "err=f.tubeEnd(query.Len()-1)"
	)
	var byPosition bool
	switch {
	case len(callback) == 5 && callback[3] == kmerLoop && callback[4] == countdown && rhs["Filter.tick"] == "":
		byPosition = false
	case len(callback) == 5 && callback[0] == tickInCall && callback[4] == kmerLoop && rhs["Filter.tick"] == tickFunc &&
		has(filterBody, tickAtEnd):
		// tick(Qlen-k+1) must come after the scan and before the final tubeEnd
		at := func(want string) int { // (local to this case)
			for i, x := range filterBody {
				if x == want {
					return i
				}
			}
			return -1
		}
		scan := -1
		for i, x := range filterBody {
			if strings.HasPrefix(x, "err=f.ki.ForEachKmerOf(query,0,query.Len(),func(") {
				scan = i
			}
		}
		if scan < 0 || !(scan < at(tickAtEnd) && at(tickAtEnd) < at(finalRetire)) {
			return "", fmt.Errorf("filter.go: tick(query.Len()-f.k+1) is not between the scan and the final tubeEnd")
		}
		byPosition = true
	default:
		return "", fmt.Errorf("filter.go: the ticker of Filter is not a modelled variant (callback %q, tick %q)", callback, rhs["Filter.tick"])
	}
	// usage histories: what a *Filter carries from one call of Filter to the next. Every
	// assignment to a field of f in the file, in source order (New builds f by a composite literal).
	var perCall, otherWrites []string
	for _, d := range file.Decls {
		fd, ok := d.(*ast.FuncDecl)
		if !ok || fd.Body == nil {
			continue
		}
		head := map[ast.Stmt]bool{}
		if fd.Name.Name == "Filter" {
			for _, st := range fd.Body.List { // the leading run of `f.<field> = …` statements
				as, ok := st.(*ast.AssignStmt)
				if !ok || as.Tok != token.ASSIGN || len(as.Lhs) != 1 || !strings.HasPrefix(compact(as.Lhs[0]), "f.") {
					break
				}
				head[st] = true
				perCall = append(perCall, strings.TrimPrefix(compact(as.Lhs[0]), "f."))
			}
		}
		ast.Inspect(fd.Body, func(n ast.Node) bool {
			switch x := n.(type) {
			case *ast.AssignStmt:
				if head[x] {
					return true
				}
				for _, l := range x.Lhs {
					if sel, ok := l.(*ast.SelectorExpr); ok && compact(sel.X) == "f" {
						otherWrites = append(otherWrites, sel.Sel.Name)
					}
				}
			case *ast.IncDecStmt:
				if sel, ok := x.X.(*ast.SelectorExpr); ok && compact(sel.X) == "f" {
					otherWrites = append(otherWrites, sel.Sel.Name)
				}
			}
			return true
		})
	}
	at := func(want string) int {
		for i, x := range filterBody {
			if x == want {
				return i
			}
		}
		return -1
	}
	pre := func(prefix string) int {
		for i, x := range filterBody {
			if strings.HasPrefix(x, prefix) {
				return i
			}
		}
		return -1
	}
	const (
		makeTubes   = "f.tubes=make([]tubeState,maxActiveTubes)"
		keepTubes   = "iflen(f.tubes)!=maxActiveTubes{f.tubes=make([]tubeState,maxActiveTubes)}"
		resetTubes  = "f.tubes=nil"
		scanPrefix  = "err=f.ki.ForEachKmerOf(query,0,query.Len(),func("
		flushPrefix = "fortubeIndex:=tubeFrom;tubeIndex<=tubeTo;tubeIndex++{"
		lastReturn  = "returnf.morass.Finalise()"
	)
	var remake bool
	switch {
	case at(makeTubes) > pre("maxActiveTubes:=") && pre("maxActiveTubes:=") >= 0 && at(makeTubes) < pre(scanPrefix) &&
		pre(flushPrefix) >= 0 && at(resetTubes) > pre(flushPrefix) && at(resetTubes) < at(lastReturn) && at(keepTubes) < 0:
		remake = true
	case at(keepTubes) > pre("maxActiveTubes:=") && pre("maxActiveTubes:=") >= 0 && at(keepTubes) < pre(scanPrefix) &&
		at(makeTubes) < 0 && at(resetTubes) < 0:
		remake = false
	default:
		return "", fmt.Errorf("filter.go: how Filter allocates and releases f.tubes is not a modelled variant")
	}
	leanList := func(xs []string) string {
		q := make([]string, len(xs))
		for i, x := range xs {
			q[i] = strconv.Quote(x)
		}
		return "[" + strings.Join(q, ", ") + "]"
	}
	// the remaining expressions the model transcribes must be the ones it was written from
	for key, want := range map[string]string{
		"Filter.tubeWidth":      "f.tubeOffset+f.maxError",
		"Filter.maxActiveTubes": "(f.target.Len()+tubeWidth-1)/f.tubeOffset+1",
		"Filter.ticker":         "tubeWidth",
		"Filter.diagTo":         "f.diagIndex(0,query.Len()-1)+tubeWidth",
		"Filter.tubeFrom":       "f.tubeIndex(diagFrom)",
		"Filter.tubeTo":         "f.tubeIndex(diagTo)",
		"tubeEnd.tubeIndex":     "f.tubeIndex(diagIndex)",
		"commonKmer.diagIndex":  "f.diagIndex(t,q)",
		"commonKmer.tubeIndex":  "f.tubeIndex(diagIndex)",
	} {
		if rhs[key] != want {
			return "", fmt.Errorf("filter.go: %s := %s, the model was written for %s", key, rhs[key], want)
		}
	}
	return fmt.Sprintf("import Biogo.Model.Filter\nnamespace Biogo.Generated.FilterFacts\n\n"+
		"/-- the retirement rule of align/pals/filter/filter.go as parsed from the source -/\n"+
		"def rule : Biogo.Filter.Rule := { retireSubMaxError := %v, flushFromLastTick := %v, tickByPosition := %v, remakeTubes := %v }\n\n"+
		"/-- the fields of a Filter assigned at the head of (*Filter).Filter, in order -/\n"+
		"def perCallFields : List String := %s\n\n"+
		"/-- every other assignment to a field of a Filter in filter.go (New builds it by a composite literal), in source order -/\n"+
		"def otherFieldWrites : List String := %s\n\n"+
		"end Biogo.Generated.FilterFacts\n", retire, flush, byPosition, remake, leanList(perCall), leanList(otherWrites)), nil
}

func init() {
	// the watchdog is generous: a loaded machine must not turn a slow temporary-file write into a "hang"
	hx.Register(&hx.Prop{ID: "C14", Gen: c14Gen, Exec: c14Exec, Shrink: c14Shrink, Timeout: 3 * time.Minute})
	hx.RegisterFacts(hx.FactGen{File: "FilterFacts.lean", Gen: filterFacts})
}
