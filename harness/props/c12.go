package props

// C12 — concurrent-mode external sort is schedule independent.
//
// Input        s <conc> <chunk> <autoClear> <autoClean> <i|s> <ops> <sched> -
// Observation  <flags> <status> <disk> <dir> <dirAfterCleanUp> <out>*      (see morass_ctl.go)
//
// The generator owns a small simulator of the hand-off protocol at hook granularity (which
// actor can move) that is used only to *produce* schedules: all interleavings of small
// workloads up to the end of Finalise, random walks with different biases beyond, and probes
// that schedule an actor the protocol blocks.  Whether a schedule is valid is decided by the
// Lean model and observed on the implementation; a wrong simulator costs precision, not
// soundness.

import (
	"fmt"
	"strconv"
	"strings"
	"time"

	"verif/harness/hx"
)

type simW struct{ pc, todo int } // pc: 0 recv 1 register 2 encode 3 sync 4 ret 5 done

type simS struct {
	c, pool, wg   int
	writable      []int
	chunk         int // length, -1 = nil
	pos, ln, rem  int
	fast, ac      bool
	pc            int // 0 idle 1 pushSend 2 pushRecv 3 finSend 4 finWrite 5 finWait
	inl           simW
	prog          []byte
	ip            int
	ws            []simW
	finalisedDisk int // number of spilling Finalise calls completed
	// fault list (C13): armed one after the other, as in morass_ctl.go and the Lean model
	faults       []mFault
	armed        int
	err          bool // m._err is set
	files        int  // run files registered in the current cycle
	conc         bool // false: pool starts empty (sequential mode)
	reuse        bool // the concurrent caller recovers with Clear after an error
	reported     int  // calls that returned an I/O error
	clearedAlive bool // a Clear ran while a write() activation was alive (after an error)
	clearRacy    bool // a Clear ran while a write() activation was alive (fourth wave: a cycle abandoned with Clear)
}

// tick: one execution of fault point pt; true = it fails.
func (s *simS) tick(pt string) bool {
	if s.armed < len(s.faults) && s.faults[s.armed].point == pt {
		if s.faults[s.armed].n == 0 {
			s.armed++
			return true
		}
		s.faults[s.armed].n--
	}
	return false
}

// fail: the current call returns an I/O error; the caller makes no call until its next Clear
// (or gives up: concurrent mode without reuse); a final CleanUp ('u') is still made.
func (s *simS) fail() {
	s.reported++
	s.pc = 0
	s.ip++
	for s.ip < len(s.prog) && s.prog[s.ip] != 'u' && (s.prog[s.ip] != 'c' || (s.conc && !s.reuse)) {
		s.ip++
	}
}

func (s *simS) clone() *simS {
	t := *s
	t.writable = append([]int(nil), s.writable...)
	t.ws = append([]simW(nil), s.ws...)
	t.faults = append([]mFault(nil), s.faults...)
	return &t
}

func (s *simS) clear() {
	s.pos, s.ln, s.rem = 0, 0, 0
	s.files, s.err = 0, false
	if s.pool > 0 {
		s.chunk = 0
		s.pool--
	} else if s.chunk != -1 {
		s.chunk = 0
	}
}

func (s *simS) wstep(w *simW) bool {
	switch w.pc {
	case 0:
		if len(s.writable) == 0 {
			return false
		}
		w.todo = s.writable[0]
		s.writable = s.writable[1:]
		w.pc = 1
		if s.tick("tempfile") {
			s.err, w.pc = true, 4
		}
	case 1:
		s.files++
		w.pc = 2
		if w.todo == 0 {
			w.pc = 3
		}
	case 2:
		if s.tick("encode") {
			s.err, w.pc = true, 4
			break
		}
		w.todo--
		if w.todo == 0 {
			w.pc = 3
		}
	case 3:
		if s.tick("sync") {
			s.err = true
		}
		w.pc = 4
	case 4:
		if s.pool >= 2 {
			return false
		}
		s.pool++
		s.wg--
		w.pc = 5
	default:
		return false
	}
	return true
}

// step makes actor a move; false = blocked or no such actor.
func (s *simS) step(a int) bool {
	if a > 0 {
		if a > len(s.ws) {
			return false
		}
		return s.wstep(&s.ws[a-1])
	}
	switch s.pc {
	case 0:
		if s.ip >= len(s.prog) {
			return false
		}
		switch s.prog[s.ip] {
		case 'p':
			if s.err {
				s.fail()
			} else if s.chunk == -1 {
				s.ip++
			} else if s.chunk == s.c {
				s.pc = 1
			} else {
				s.chunk++
				s.pos++
				s.ln++
				s.ip++
			}
		case 'f':
			if s.err {
				s.fail()
			} else if s.chunk == -1 {
				s.ip++
			} else if s.pos < s.c {
				s.fast, s.pos = true, 0
				s.ip++
			} else {
				s.fast = false
				s.pc = 3
			}
		case 'l':
			if s.fast {
				switch {
				case s.chunk != -1 && s.pos < s.chunk:
					s.pos++
				case s.chunk != -1:
					s.pool++
					s.chunk = -1
					if s.ac {
						s.clear()
					}
				default:
					if s.ac {
						s.clear()
					}
				}
			} else if s.rem > 0 {
				s.rem--
				s.pos++
				if s.tick("pdecode") {
					s.fail()
					break
				}
			} else if s.ac {
				s.clear()
			}
			s.ip++
		case 'c':
			if s.writersAlive() || len(s.writable) > 0 {
				s.clearRacy = true
				if s.reported > 0 {
					s.clearedAlive = true
				}
			}
			s.clear()
			s.ip++
		case 'x': // rejected Push: nothing happens
			s.ip++
		case 'u': // the caller's final CleanUp
			s.ip++
		}
	case 1:
		if len(s.writable) >= 1 {
			return false
		}
		s.writable = append(s.writable, s.chunk)
		s.wg++
		s.ws = append(s.ws, simW{})
		s.pc = 2
	case 2:
		if s.pool == 0 {
			return false
		}
		s.pool--
		if s.err {
			s.chunk = 0
			s.fail()
			break
		}
		s.chunk = 1
		s.pos++
		s.ln++
		s.ip++
		s.pc = 0
	case 3:
		if len(s.writable) >= 1 {
			return false
		}
		s.writable = append(s.writable, s.chunk)
		s.chunk = -1
		s.wg++
		s.inl = simW{}
		s.pc = 4
	case 4:
		if !s.wstep(&s.inl) {
			return false
		}
		if s.inl.pc == 5 {
			s.pc = 5
		}
	case 5:
		if s.wg != 0 {
			return false
		}
		if s.err {
			s.fail()
			break
		}
		s.pos, s.rem = 0, s.ln
		for i := 0; i < s.files; i++ {
			if s.tick("seek") || s.tick("fdecode") {
				s.fail()
				return true
			}
		}
		s.ip++
		s.pc = 0
		s.finalisedDisk++
	}
	return true
}

func (s *simS) alive(a int) bool {
	if a == 0 {
		return s.ip < len(s.prog) || s.pc != 0
	}
	return a <= len(s.ws) && s.ws[a-1].pc != 5
}

func (s *simS) writersAlive() bool {
	for i := range s.ws {
		if s.ws[i].pc != 5 {
			return true
		}
	}
	return false
}

func newSim(c int, ac bool, ops []string) *simS {
	s := &simS{c: c, pool: 1, ac: ac, conc: true}
	for _, o := range ops {
		s.prog = append(s.prog, o[0])
	}
	return s
}

// newSimF: the simulator with a fault list ("-" or point:n+point:n...), for C13's generators.
func newSimF(conc bool, c int, ac bool, ops []string, fault string, reuse bool) *simS {
	s := newSim(c, ac, ops)
	s.conc, s.reuse = conc, reuse
	if !conc {
		s.pool = 0
	}
	s.faults = parseMFaults(fault)
	return s
}

// quiescent: the interesting concurrency is over (no writer alive and the caller is between
// calls with no spill pending); the rest of the program is left to the free run.
func (s *simS) quiescent() bool {
	if s.writersAlive() || s.pc != 0 {
		return false
	}
	for i := s.ip; i < len(s.prog); i++ {
		if s.prog[i] == 'p' {
			return false
		}
	}
	return true
}

// enumerate all schedules from s up to quiescence; emit returns false to stop.
func simEnumerate(s *simS, prefix []int, emit func([]int) bool) bool {
	if s.quiescent() {
		return emit(prefix)
	}
	moved := false
	for a := 0; a <= len(s.ws); a++ {
		t := s.clone()
		if !t.step(a) {
			continue
		}
		moved = true
		if !simEnumerate(t, append(prefix[:len(prefix):len(prefix)], a), emit) {
			return false
		}
	}
	if !moved {
		return emit(prefix) // deadlock in the simulator: still a schedule worth forcing
	}
	return true
}

func c12Workload(g *hx.Gen, c, n int, ty string, pulls int, keyRange int) []string {
	var ops []string
	ops = c11Cycle(g, ops, c, ty, n, pulls, false, keyRange)
	return ops
}

func c12Line(c int, ac bool, ty string, ops []string, sched []int) string {
	return fmt.Sprintf("s 1 %d %s 0 %s %s %s -", c, hx.B(ac), ty, strings.Join(ops, ","), hx.Ints(sched))
}

func c12Exec(input string) string {
	f := hx.Fields(input)
	if f[0] != "s" {
		panic("c12: bad input " + input)
	}
	return morassRunWork(parseMWork(f[1:]))
}

// c12Enumerate emits every schedule of the workload (up to quiescence) when they fit into capPer,
// an evenly spread sample when there are more, and - when there are so many that the
// enumeration itself is cut off (its depth-first prefix would fix the early choices) - capPer
// uniform random walks instead.
func c12Enumerate(g *hx.Gen, c int, ac bool, ty string, ops []string, capPer int) {
	const cut = 200000
	var all [][]int
	simEnumerate(newSim(c, ac, ops), nil, func(s []int) bool {
		all = append(all, append([]int(nil), s...))
		return len(all) < cut
	})
	if len(all) >= cut {
		for i := 0; i < capPer && !g.Done(); i++ {
			s := newSim(c, ac, ops)
			var sched []int
			for steps := 0; steps < 800 && !s.quiescent(); steps++ {
				var en []int
				for a := 0; a <= len(s.ws); a++ {
					if s.clone().step(a) {
						en = append(en, a)
					}
				}
				if len(en) == 0 {
					break
				}
				a := en[g.Intn(len(en))]
				s.step(a)
				sched = append(sched, a)
			}
			g.Case(c12Line(c, ac, ty, ops, sched))
		}
		return
	}
	stride := 1
	if len(all) > capPer {
		stride = len(all)/capPer + 1
	}
	off := 0
	if stride > 1 {
		off = g.Intn(stride)
	}
	for i := off; i < len(all) && !g.Done(); i += stride {
		g.Case(c12Line(c, ac, ty, ops, all[i]))
	}
}

func c12Gen(g *hx.Gen) {
	// every stage gets its share of the budget in every mode (quick: ~3000 cases in 90 s;
	// focus = quick x 2.5; thorough: ~16000 cases in 400 s), so that the multi-cycle
	// histories and the random walks are reached in all of them
	scale := func(q, t int) int {
		switch {
		case g.Tier == "thorough":
			return t
		case g.Focus:
			return q * 5 / 2
		}
		return q
	}
	// the dangerous shape first: short last chunk, Finalise racing the only background writer
	// (1) every interleaving of small one-cycle workloads
	type wl struct{ c, n int }
	small := []wl{{1, 2}, {2, 3}, {1, 3}}
	capPer := scale(560, 3000)
	for _, w := range small {
		ty := "i"
		if g.Chance(0.5) {
			ty = "s"
		}
		ops := c12Workload(g, w.c, w.n, ty, w.n+1, 5)
		c12Enumerate(g, w.c, false, ty, ops, capPer)
	}
	// (1b) every interleaving (or a sample) of small multi-cycle histories: the writers of one
	// cycle against the caller's pulls, Clear and the next cycle (what
	// conc_history_sorted_multiset states)
	type hist struct {
		c  int
		ac bool
		cy [][3]int // pushes, pulls, clear
	}
	hists := []hist{
		{2, false, [][3]int{{1, 0, 1}, {3, 4, 0}}},            // memory-only unpulled, Clear takes the nil from pool (pool stays empty: the next cycle is serialised); spill
		{1, false, [][3]int{{2, 1, 1}, {2, 3, 0}}},            // spill, partial drain, Clear; spill, drain
		{2, false, [][3]int{{1, 2, 1}, {3, 4, 0}}},            // memory-only drained to io.EOF (buffer back in pool), Clear; spill
		{1, true, [][3]int{{2, 3, 0}, {2, 3, 0}}},             // closed by AutoClear at io.EOF; spill again
		{2, false, [][3]int{{3, 4, 1}, {1, 2, 1}, {3, 1, 0}}}, // spill, memory-only, spill
	}
	capH := scale(210, 1000)
	for _, h := range hists {
		ty := "i"
		if g.Chance(0.5) {
			ty = "s"
		}
		var ops []string
		for _, cy := range h.cy {
			ops = c11Cycle(g, ops, h.c, ty, cy[0], cy[1], cy[2] == 1, 5)
		}
		c12Enumerate(g, h.c, h.ac, ty, ops, capH)
	}
	// (1d) chunk sizes that are not a small power of two (5, 6, 7, 10), two cycles on one sorter:
	// 2c+1 values (both buffers have been in use: the second one is the nil pre-seeded in pool,
	// replaced in Push by a buffer of capacity c), drained, Clear, then c+1 values (the last one
	// alone in the recycled second buffer).  A buffer whose capacity exceeds the chunk size makes
	// Finalise's `pos < cap(chunk)` test take the in-memory path for c+1 values (seeded change
	// C12-m5).  Orderings: a spawned writer runs to its end at once / the caller runs until it
	// blocks (then the second buffer comes back to pool after the first) / random.
	for _, c := range []int{5, 6, 7, 10} {
		for _, extra := range []int{1, 2} {
			if g.Done() || (extra == 2 && !g.Thorough() && c != 5) {
				continue
			}
			ty := "i"
			if g.Chance(0.3) {
				ty = "s"
			}
			var ops []string
			ops = c11Cycle(g, ops, c, ty, 2*c+1, 2*c+2, true, 60)
			ops = c11Cycle(g, ops, c, ty, c+extra, c+extra+1, false, 60)
			for pol := 0; pol < 3; pol++ {
				g.Case(c12Line(c, false, ty, ops, c13Sched(g, c, false, ops, pol)))
			}
		}
	}
	// (1c) a rejected Push (a value of another type) when the chunk is exactly full, then
	// Finalise: the rejected call must not hand the chunk over.  The schedule runs the writers
	// of the earlier chunks to completion, then probes the writer that must not exist (flag x;
	// were it spawned it would now be held at write.register) and steps the caller through
	// Finalise and the pulls while that writer stays parked.
	nrej := scale(24, 120)
	for k := 0; k < nrej && !g.Done(); k++ {
		c := g.Pick(1, 2, 3, 4)
		full := g.Range(1, 3)
		ty := "i"
		if g.Chance(0.5) {
			ty = "s"
		}
		var ops []string
		if g.Chance(0.3) { // an earlier cycle
			ops = c11Cycle(g, ops, c, ty, g.Range(1, 2)*c+g.Intn(2), g.Intn(3), true, 8)
		}
		n := full * c
		for i := 0; i < n; i++ {
			if ty == "s" {
				ops = append(ops, fmt.Sprintf("p%d:%d", g.Intn(9)-3, g.Intn(4)))
			} else {
				ops = append(ops, fmt.Sprintf("p%d", g.Intn(9)-3))
			}
		}
		ops = append(ops, "x")
		if g.Chance(0.3) {
			ops = append(ops, "x")
		}
		rest := []string{"f"}
		for i := 0; i <= n; i++ {
			rest = append(rest, "l")
		}
		s := newSim(c, false, append(append([]string(nil), ops...), rest...))
		var sched []int
		nx := len(ops)
		for steps := 0; steps < 600 && s.ip < nx; steps++ {
			var en []int
			for a := 0; a <= len(s.ws); a++ {
				if s.clone().step(a) {
					en = append(en, a)
				}
			}
			if len(en) == 0 {
				break
			}
			a := en[len(en)-1] // writers first: the earlier chunks are on disk before the rejected Push
			if g.Chance(0.15) {
				a = en[g.Intn(len(en))]
			}
			s.step(a)
			sched = append(sched, a)
		}
		for s.writersAlive() && len(sched) < 700 { // let the earlier writers finish
			moved := false
			for a := 1; a <= len(s.ws); a++ {
				if s.clone().step(a) {
					s.step(a)
					sched = append(sched, a)
					moved = true
					break
				}
			}
			if !moved {
				break
			}
		}
		sched = append(sched, len(s.ws)+1) // the writer a rejected Push must not spawn
		for i := 0; i < len(rest)+c+8; i++ {
			sched = append(sched, 0)
		}
		g.Case(c12Line(c, false, ty, append(ops, rest...), sched))
	}
	// (2) random walks on larger workloads and histories of 1..4 cycles, (3) probes
	n := scale(750, 5000)
	for k := 0; k < n && !g.Done(); k++ {
		c := g.Pick(1, 2, 2, 3, 4, 1, 2, 3, 4, g.Pick(5, 6, 7, 10))
		chunks := g.Range(1, 4)
		if c > 4 {
			chunks = g.Range(1, 2)
		}
		last := g.Pick(0, 1, 1, c-1, c)
		cnt := chunks*c + last
		if g.Chance(0.1) {
			cnt = g.Intn(c) // stays in memory
		}
		ty := "i"
		if g.Chance(0.5) {
			ty = "s"
		}
		ac := g.Chance(0.3)
		var ops []string
		cycles := g.Pick(1, 1, 1, 2, 2, 3, 4)
		for cy := 0; cy < cycles; cy++ {
			pulls := cnt + 1
			drained := true
			if cy < cycles-1 {
				switch g.Intn(5) {
				case 0:
					pulls, drained = 0, false
				case 1:
					pulls, drained = g.Intn(cnt+1), false
				case 2:
					pulls, drained = cnt, false
				}
			}
			clear := cy < cycles-1
			if clear && ac && drained && g.Chance(0.6) {
				clear = false // closed by AutoClear
			}
			ops = c11Cycle(g, ops, c, ty, cnt, pulls, clear, g.Pick(3, 8, 100))
			cnt = g.Pick(chunks*c+last, c+1, 2*c, c11Count(g, c))
		}
		if g.Chance(0.2) { // rejected pushes anywhere
			for r := g.Range(1, 2); r > 0; r-- {
				i := g.Intn(len(ops) + 1)
				ops = append(ops[:i:i], append([]string{"x"}, ops[i:]...)...)
			}
		}
		s := newSim(c, ac, ops)
		bias := g.Pick(0, 1, 2, 3) // 0 uniform, 1 caller first, 2 writers first, 3 newest writer last
		probe := g.Chance(0.15)
		probeAt := g.Intn(40)
		var sched []int
		for steps := 0; steps < 600 && !s.quiescent(); steps++ {
			var en, blocked []int
			for a := 0; a <= len(s.ws); a++ {
				if s.clone().step(a) {
					en = append(en, a)
				} else if s.alive(a) {
					blocked = append(blocked, a)
				}
			}
			if probe && steps >= probeAt {
				if len(blocked) > 0 {
					sched = append(sched, blocked[g.Intn(len(blocked))])
					break
				}
				if g.Chance(0.2) {
					sched = append(sched, len(s.ws)+1+g.Intn(2)) // no such writer
					break
				}
			}
			if len(en) == 0 {
				break
			}
			a := en[g.Intn(len(en))]
			switch bias {
			case 1:
				if en[0] == 0 && g.Chance(0.85) {
					a = 0
				}
			case 2:
				if len(en) > 1 && g.Chance(0.85) {
					a = en[1+g.Intn(len(en)-1)]
				}
			case 3:
				if g.Chance(0.7) {
					a = en[0]
				}
			}
			s.step(a)
			sched = append(sched, a)
		}
		g.Case(c12Line(c, ac, ty, ops, sched))
	}
}

// c12Shrink: shorten the schedule from the end, drop single entries.
func c12Shrink(input string) []string {
	f := hx.Fields(input)
	if len(f) != 9 {
		return nil
	}
	sched := hx.ParseInts(f[7])
	var out []string
	emit := func(s []int) {
		g := append([]string(nil), f...)
		g[7] = hx.Ints(s)
		out = append(out, strings.Join(g, " "))
	}
	if len(sched) > 0 {
		emit(sched[:len(sched)/2])
		emit(sched[:len(sched)-1])
	}
	_ = strconv.Itoa
	return out
}

func init() {
	hx.Register(&hx.Prop{ID: "C12", Gen: c12Gen, Exec: c12Exec, Shrink: c12Shrink, Timeout: 90 * time.Second})
}
