package props

// Facts about package concurrent regenerated from the source on every check run
// (Biogo/Generated/Concurrent.lean): where the hook points sit, which rule decides the
// closing of the result channel, whether Wait inspects the message under the mutex, and
// whether the setters run under the mutex.  Biogo/Properties/C19.lean has a `decide`
// obligation saying that these are the facts of the protocol variant the theorems are about.

import (
	"bytes"
	"fmt"
	"go/ast"
	"go/parser"
	"go/printer"
	"go/token"
	"path/filepath"
	"strings"

	"verif/harness/hx"
)

func c19Render(fset *token.FileSet, n ast.Node) string {
	var b bytes.Buffer
	printer.Fprint(&b, fset, n)
	return strings.Join(strings.Fields(b.String()), " ")
}

func isVerifStep(st ast.Stmt) (string, bool) {
	es, ok := st.(*ast.ExprStmt)
	if !ok {
		return "", false
	}
	call, ok := es.X.(*ast.CallExpr)
	if !ok {
		return "", false
	}
	id, ok := call.Fun.(*ast.Ident)
	if !ok || id.Name != "verifStep" || len(call.Args) < 1 {
		return "", false
	}
	lit, ok := call.Args[0].(*ast.BasicLit)
	if !ok {
		return "", false
	}
	return strings.Trim(lit.Value, "\""), true
}

func concurrentFacts(repo string) (string, error) {
	fset := token.NewFileSet()
	var sb strings.Builder
	sb.WriteString("namespace Biogo.Generated.Concurrent\n\n")

	// ---- hook points in source order, with the enclosing function
	var hooks []string
	files := map[string]*ast.File{}
	for _, name := range []string{"processor.go", "map.go", "promise.go", "lazy.go"} {
		f, err := parser.ParseFile(fset, filepath.Join(repo, "concurrent", name), nil, 0)
		if err != nil {
			return "", err
		}
		files[name] = f
		for _, d := range f.Decls {
			fd, ok := d.(*ast.FuncDecl)
			if !ok || fd.Body == nil {
				continue
			}
			ast.Inspect(fd.Body, func(n ast.Node) bool {
				if st, ok := n.(ast.Stmt); ok {
					if pt, ok := isVerifStep(st); ok {
						hooks = append(hooks, fmt.Sprintf("(%q, %q)", fd.Name.Name, pt))
					}
				}
				return true
			})
		}
	}
	fmt.Fprintf(&sb, "def hookPoints : List (String × String) := [%s]\n\n", strings.Join(hooks, ", "))

	// ---- the worker's deferred exit block
	closeRule, closeCond := "unknown", ""
	tokenBeforeHook, doneAfterClose := false, false
	for _, d := range files["processor.go"].Decls {
		fd, ok := d.(*ast.FuncDecl)
		if !ok || fd.Name.Name != "NewProcessor" {
			continue
		}
		ast.Inspect(fd.Body, func(n ast.Node) bool {
			ds, ok := n.(*ast.DeferStmt)
			if !ok {
				return true
			}
			fl, ok := ds.Call.Fun.(*ast.FuncLit)
			if !ok {
				return true
			}
			stmts := fl.Body.List
			for i, st := range stmts {
				pt, ok := isVerifStep(st)
				if !ok || pt != "worker.token_returned" {
					continue
				}
				if i > 0 {
					tokenBeforeHook = c19Render(fset, stmts[i-1]) == "p.work <- struct{}{}"
				}
				if i+1 < len(stmts) {
					if is, ok := stmts[i+1].(*ast.IfStmt); ok {
						closeCond = c19Render(fset, is.Cond)
						if is.Init != nil {
							closeCond = c19Render(fset, is.Init) + "; " + closeCond
						}
						body := c19Render(fset, is.Body)
						switch {
						case !strings.Contains(body, "close(p.out)"):
							closeRule = "no-close"
						case closeCond == "atomic.AddInt32(&p.exited, 1) == int32(p.threads)":
							closeRule = "exit-counter"
						case closeCond == "len(p.work) == p.threads":
							closeRule = "token-count"
						default:
							closeRule = "other"
						}
					}
				}
				if i+2 < len(stmts) {
					doneAfterClose = c19Render(fset, stmts[i+2]) == "p.wg.Done()"
				}
			}
			return true
		})
	}
	fmt.Fprintf(&sb, "def closeRule : String := %q\ndef closeCond : String := %q\n", closeRule, closeCond)
	fmt.Fprintf(&sb, "def tokenReturnedBeforeHook : Bool := %v\ndef wgDoneAfterClose : Bool := %v\n\n", tokenBeforeHook, doneAfterClose)

	// ---- promise.go: which methods run under the mutex; how Wait looks at the message
	var locked []string
	waitUnderMutex, waitOnCond := false, false
	failCond, recoverTakes := "", "unknown"
	var putsBroadcast []string
	for _, d := range files["promise.go"].Decls {
		fd, ok := d.(*ast.FuncDecl)
		if !ok || fd.Recv == nil || fd.Body == nil {
			continue
		}
		stmts := fd.Body.List
		if fd.Name.Name == "fulfill" || fd.Name.Name == "fail" {
			// every statement that places a message in the mailbox is followed by a Broadcast
			// on the condition variable the waiters sleep on
			puts, woken := 0, 0
			for i, st := range stmts {
				if c19Render(fset, st) == "p.message <- r" {
					puts++
					if i+1 < len(stmts) && c19Render(fset, stmts[i+1]) == "p.set.Broadcast()" {
						woken++
					}
				}
			}
			putsBroadcast = append(putsBroadcast, fmt.Sprintf("(%q, %d, %d)", fd.Name.Name, puts, woken))
		}
		switch fd.Name.Name {
		case "fail":
			// the test that decides whether the promise can still be failed
			for _, st := range stmts {
				if is, ok := st.(*ast.IfStmt); ok && failCond == "" {
					failCond = c19Render(fset, is.Cond)
				}
			}
		case "Fulfill", "Fail", "Recover", "Break":
			ok := len(stmts) >= 2 && c19Render(fset, stmts[0]) == "p.m.Lock()" && c19Render(fset, stmts[1]) == "defer p.m.Unlock()"
			locked = append(locked, fmt.Sprintf("(%q, %v)", fd.Name.Name, ok))
			if fd.Name.Name == "Recover" {
				// where does Recover take the message: only inside `if p.recoverable { … }`
				// (and never in its else branch), or also outside it?
				inside, outside := 0, 0
				var walk func(n ast.Node, guarded bool)
				walk = func(n ast.Node, guarded bool) {
					ast.Inspect(n, func(m ast.Node) bool {
						if m == nil || m == n {
							return true
						}
						if is, ok := m.(*ast.IfStmt); ok && c19Render(fset, is.Cond) == "p.recoverable" {
							walk(is.Body, true)
							if is.Else != nil {
								walk(is.Else, false)
							}
							return false
						}
						if ce, ok := m.(*ast.CallExpr); ok && c19Render(fset, ce.Fun) == "p.messageState" {
							if guarded {
								inside++
							} else {
								outside++
							}
						}
						return true
					})
				}
				walk(fd.Body, false)
				switch {
				case outside > 0:
					recoverTakes = "always"
				case inside > 0:
					recoverTakes = "when-recoverable"
				default:
					recoverTakes = "never"
				}
			}
		case "Wait":
			lockAt, takeAt, hookAt, putAt, unlockAt := -1, -1, -1, -1, -1
			for i, st := range stmts {
				r := c19Render(fset, st)
				switch {
				case r == "p.m.Lock()" && lockAt < 0:
					lockAt = i
				case r == "r := <-p.message":
					takeAt = i
				case r == "p.message <- r":
					putAt = i
				case r == "p.m.Unlock()":
					unlockAt = i
				case strings.HasPrefix(r, "for len(p.message) == 0 {") && strings.Contains(r, "p.set.Wait()"):
					waitOnCond = lockAt >= 0 && takeAt < 0
				}
				if pt, ok := isVerifStep(st); ok && pt == "promise.wait.borrowed" {
					hookAt = i
				}
			}
			waitUnderMutex = lockAt >= 0 && lockAt < takeAt && takeAt < hookAt && hookAt < putAt && putAt < unlockAt
		}
	}
	fmt.Fprintf(&sb, "def settersLocked : List (String × Bool) := [%s]\n", strings.Join(locked, ", "))
	fmt.Fprintf(&sb, "def waitTakesUnderMutex : Bool := %v\ndef waitSleepsOnCond : Bool := %v\n", waitUnderMutex, waitOnCond)
	fmt.Fprintf(&sb, "def failCond : String := %q\ndef recoverTakesMessage : String := %q\n", failCond, recoverTakes)
	fmt.Fprintf(&sb, "def putsThenBroadcast : List (String × Nat × Nat) := [%s]\n\n", strings.Join(putsBroadcast, ", "))
	sb.WriteString("end Biogo.Generated.Concurrent\n")
	return sb.String(), nil
}

func init() {
	hx.RegisterFacts(hx.FactGen{File: "Concurrent.lean", Gen: concurrentFacts})
}
