package props

// C09 (part lin) — alignment descriptions of NW, SW and Fitted are well-formed, faithfully
// scored, type-independent and total.  Inputs, executor and observation are those of
// c08_lin.go; this generator adds the ill-typed inputs (illegal letters at every position,
// differing alphabet objects, Letters against QLetters, every matrix shape class of
// alinShapes — empty, undersized, short, tall, wide, ragged inside and beyond the rows the
// alphabet addresses, and the legal oversized squares — alphabets without a gap letter at
// index 0, no alphabet).
//
// It also owns the static fact common to all six aligners: the twelve generated
// `*_letters.go` / `*_qletters.go` files are byte-for-byte what genCode.sh produces from
// the six `*_type.got` templates (Biogo/Generated/AlignTemplates.lean).

import (
	"bytes"
	"fmt"
	"os"
	"os/exec"
	"path/filepath"
	"sort"
	"strings"

	"verif/harness/hx"
)

// alinShape is a scoring matrix of a named shape class.
type alinShape struct {
	name string
	m    [][]int
}

func alinCloneMatrix(m [][]int) [][]int {
	out := make([][]int, len(m))
	for i := range m {
		out[i] = append([]int{}, m[i]...)
	}
	return out
}

// alinRowLen returns a copy of m with row i cut or zero-extended to length l.
func alinRowLen(m [][]int, i, l int) [][]int {
	out := alinCloneMatrix(m)
	for len(out[i]) < l {
		out[i] = append(out[i], 0)
	}
	out[i] = out[i][:l]
	return out
}

// alinRect is the rows x cols matrix with entry [i][j] of the asymmetric family matrix.
func alinRect(rows, cols int) [][]int {
	big := rows
	if cols > big {
		big = cols
	}
	src := alinFamily(big)[8]
	out := make([][]int, rows)
	for i := range out {
		out[i] = append([]int{}, src[i][:cols]...)
	}
	return out
}

// alinShapes lists matrices of every shape class for an alphabet of n >= 3 letters.  Legal:
// square of the alphabet's size and larger (exact, oversized+1, +2, +5).  Ill-typed, error
// ErrMatrixWrongSize: fewer rows than letters (empty, 1x1, undersized square, short =
// rows as long as the alphabet, undersized and ragged).  Ill-typed, error
// ErrMatrixNotSquare: at least as many rows as letters and a row whose length is not the
// number of rows — ragged at a row the alphabet addresses (first, every one, last), at a row
// beyond the alphabet (oversized matrix with a short, long or empty extra row), every row
// (wide, tall, oversized rectangles).
func alinShapes(n int) []alinShape {
	sym, asym := alinFamily(n)[0], alinFamily(n)[8]
	var out []alinShape
	add := func(name string, m [][]int) { out = append(out, alinShape{name, m}) }
	add("exact-symmetric", sym)
	add("exact-asymmetric", asym)
	for ki, k := range alinOverSizes {
		add(fmt.Sprintf("oversized+%d-symmetric", k), alinOversize(sym, k, ki%4))
		add(fmt.Sprintf("oversized+%d-asymmetric", k), alinOversize(asym, k, (ki+1)%4))
		add(fmt.Sprintf("oversized+%d-family", k), alinFamily(n + k)[8])
	}
	add("empty", nil)
	add("one-empty-row", [][]int{{}})
	add("1x1", [][]int{{0}})
	add("undersized-square-1", alinFamily(n - 1)[0])
	add("undersized-square-2", alinFamily(n - 2)[1])
	add("short", alinRect(n-1, n))                              // n-1 rows of n
	add("short-ragged", alinRowLen(alinRect(n-1, n-1), 0, n-2)) // undersized and ragged: the size comes first
	add("short-wide", alinRect(n-1, n+1))
	add("tall+1", alinRect(n+1, n)) // more rows than columns
	add("tall+2", alinRect(n+2, n))
	add("wide+1", alinRect(n, n+1)) // more columns than rows
	add("wide+2", alinRect(n, n+2))
	for i := 0; i < n; i++ { // ragged at every row the alphabet addresses
		add(fmt.Sprintf("ragged-row%d-short", i), alinRowLen(asym, i, n-1))
		add(fmt.Sprintf("ragged-row%d-long", i), alinRowLen(asym, i, n+1))
	}
	add("ragged-empty-row", alinRowLen(asym, n/2, 0))
	add("ragged-two-rows", alinRowLen(alinRowLen(asym, 1, n+1), n-1, n-1)) // same number of entries as a square
	// oversized and ragged: inside the alphabet's rows and beyond them
	for _, k := range []int{1, 2} {
		big := alinOversize(asym, k, 3)
		add(fmt.Sprintf("oversized+%d-ragged-row0", k), alinRowLen(big, 0, n+k-1))
		add(fmt.Sprintf("oversized+%d-ragged-last-alphabet-row", k), alinRowLen(big, n-1, n))
		add(fmt.Sprintf("oversized+%d-ragged-extra-row-short", k), alinRowLen(big, n+k-1, n))
		add(fmt.Sprintf("oversized+%d-ragged-extra-row-shorter", k), alinRowLen(big, n, n+k-1))
		add(fmt.Sprintf("oversized+%d-ragged-extra-row-long", k), alinRowLen(big, n+k-1, n+k+1))
		add(fmt.Sprintf("oversized+%d-ragged-extra-row-empty", k), alinRowLen(big, n+k-1, 0))
	}
	add("oversized-rect-wide", alinRect(n+1, n+2))
	add("oversized-rect-tall", alinRect(n+2, n+1))
	add("exact-rows-plus-row-of-n+1", append(alinCloneMatrix(asym), make([]int, n+1))) // n+1 rows: n of n, one of n+1
	return out
}

// alinBreakMatrix turns a legal matrix into a random ill-shaped (or oversized) one.
func alinBreakMatrix(g *hx.Gen, m [][]int) [][]int {
	n := len(m)
	switch g.Intn(7) {
	case 0: // a row cut or extended
		i := g.Intn(n)
		return alinRowLen(m, i, g.Pick(0, n-1, n-1, n+1, n+1, n+2))
	case 1: // rows dropped: undersized, rows too long
		return alinCloneMatrix(m[:g.Range(0, n-1)])
	case 2: // undersized square
		k := g.Range(1, n-1)
		out := alinCloneMatrix(m[:k])
		for i := range out {
			out[i] = out[i][:k]
		}
		return out
	case 3: // rows added without widening: tall
		out := alinCloneMatrix(m)
		for k := g.Range(1, 3); k > 0; k-- {
			out = append(out, make([]int, n))
		}
		return out
	case 4: // every row widened: wide
		out := alinCloneMatrix(m)
		k := g.Range(1, 3)
		for i := range out {
			out[i] = append(out[i], make([]int, k)...)
		}
		return out
	case 5: // oversized with a ragged extra row
		big := alinRandOversize(g, m, -1)
		i := g.Range(n, len(big)-1)
		return alinRowLen(big, i, g.Pick(0, n, len(big)-1, len(big)+1))
	}
	return alinRandOversize(g, m, -1) // legal
}

func alinIllTyped(g *hx.Gen) {
	fam3 := alinFamily(3)
	at3 := alinAlphaTok("-ab", true, '-')
	seqs := alinSeqs("ab", 1, g.Scale(3, 4))
	mt := alinMatrixTok(fam3[0])
	// an illegal letter at every position of each sequence (and of both)
	for _, op := range alinOps {
		for _, r := range seqs {
			for _, q := range seqs {
				if g.Done() {
					return
				}
				if (len(r)+len(q))%2 == 1 && !g.Thorough() && len(r)+len(q) > 4 {
					continue
				}
				for i := 0; i < len(r); i++ {
					rb := []byte(r)
					rb[i] = 'z'
					g.Casef("%s %s %s %s %s LL", op, at3, mt, hx.Hex(rb), hx.Hex([]byte(q)))
				}
				for j := 0; j < len(q); j++ {
					qb := []byte(q)
					qb[j] = '!'
					g.Casef("%s %s %s %s %s LL", op, at3, mt, hx.Hex([]byte(r)), hx.Hex(qb))
				}
				rb, qb := []byte(r), []byte(q)
				rb[len(rb)-1], qb[0] = 'Z', 0xff
				g.Casef("%s %s %s %s %s LL", op, at3, mt, hx.Hex(rb), hx.Hex(qb))
			}
		}
	}
	// matrices: every shape class of alinShapes for the 5-letter alphabet.DNAgapped and for the
	// 3-letter alphabet, for every aligner (mode LL runs plain and quality letters)
	dna := alinAlphaTok(alinDNA, false, '-')
	full := alinFamily(5)[0]
	dnaSeqs := []string{"a", "acgt", "ttgaca", "t", "gat-ta", "ACGT"}
	for _, op := range alinOps {
		for _, sh := range alinShapes(5) {
			mtok := alinMatrixTok(sh.m)
			for _, r := range dnaSeqs {
				for _, q := range []string{"c", "gatt", "tgca"} {
					if g.Done() {
						return
					}
					g.Casef("%s %s %s %s %s LL", op, dna, mtok, hx.Hex([]byte(r)), hx.Hex([]byte(q)))
				}
			}
		}
		for _, sh := range alinShapes(3) {
			mtok := alinMatrixTok(sh.m)
			for _, rq := range [][2]string{{"a", "b"}, {"b", "b"}, {"ab", "ba"}, {"abba", "bab"}, {"bb", "abab"}} {
				if g.Done() {
					return
				}
				g.Casef("%s %s %s %s %s LL", op, at3, mtok, hx.Hex([]byte(rq[0])), hx.Hex([]byte(rq[1])))
			}
		}
	}
	// modes: slice types, alphabet objects, alphabets without a gap at index 0, combinations
	// with an illegal letter and with a bad matrix (which error comes first is modelled)
	nogap := alinAlphaTok("acgt", false, '-') // alphabet.DNA
	gapLast := alinAlphaTok("ab-", true, '-')
	for _, op := range alinOps {
		for _, mode := range []string{"LQ", "QL", "A2", "NA", "LL"} {
			for _, at := range []string{dna, nogap, gapLast, at3} {
				for _, m := range [][][]int{full, full[:4], fam3[0], nil, alinOversize(full, 1, 0), alinRowLen(alinOversize(full, 2, 3), 6, 5)} {
					for _, rq := range [][2]string{{"acgt", "gat"}, {"ab", "ba"}, {"a", "a"}, {"az", "a"}, {"a", "za"}} {
						if g.Done() {
							return
						}
						g.Casef("%s %s %s %s %s %s", op, at, alinMatrixTok(m), hx.Hex([]byte(rq[0])), hx.Hex([]byte(rq[1])), mode)
					}
				}
			}
		}
	}
	// empty sequences (outside the property's quantifier; model and code must still agree)
	for _, op := range alinOps {
		for _, rq := range [][2]string{{"", ""}, {"", "ab"}, {"ab", ""}, {"", "z"}, {"z", ""}} {
			g.Casef("%s %s %s %s %s LL", op, at3, mt, hx.Hex([]byte(rq[0])), hx.Hex([]byte(rq[1])))
		}
	}
	// random: a legal random case with letters replaced by illegal ones at random places
	n := g.Scale(3000, 20000)
	for k := 0; k < n && !g.Done(); k++ {
		f := hx.Fields(alinRandomCase(g, 40))
		for _, idx := range []int{3, 4} {
			if g.Chance(0.6) {
				b := hx.Unhex(f[idx])
				for c := g.Pick(1, 1, 2, 3); c > 0; c-- {
					b[g.Intn(len(b))] = byte(g.Pick('!', 'Z', 'j', 'o', 'u', 0, 255, '.'))
				}
				f[idx] = hx.Hex(b)
			}
		}
		if g.Chance(0.15) {
			f[5] = []string{"LQ", "QL", "A2", "NA"}[g.Intn(4)]
		}
		if g.Chance(0.3) { // a random ill-shaped (one in seven: legal oversized) matrix
			f[2] = alinMatrixTok(alinBreakMatrix(g, alinMatrix(f[2])))
		}
		g.Case(strings.Join(f, " "))
	}
}

func c09linGen(g *hx.Gen) {
	alinIllTyped(g)
	// the well-typed inputs of C08: exhaustive small part and random pairs
	alinExhaustive(g, "-ab", g.Scale(3, 4), 1)
	alinExhaustiveOversized(g, "-ab", g.Scale(2, 3), 1)
	alinExhaustive(g, "-abc", 3, g.Scale(2, 1))
	alinExhaustiveOversized(g, "-abc", 2, g.Scale(2, 1))
	n := g.Scale(3000, 30000)
	for k := 0; k < n && !g.Done(); k++ {
		alinTinyRandom(g)
	}
	n = g.Scale(4000, 60000)
	for k := 0; k < n && !g.Done(); k++ {
		g.Case(alinRandomCase(g, g.Scale(120, 200)))
	}
}

// ---- regenerated fact: generated files = genCode.sh(templates) ------------------------

// alignTemplateFacts copies the six templates and genCode.sh into a scratch directory,
// runs the script there (the installed gofmt) and compares each of the twelve outputs
// byte-for-byte with the committed generated file.
func alignTemplateFacts(repo string) (string, error) {
	src := filepath.Join(repo, "align")
	tmp, err := os.MkdirTemp("", "verif-aligngen-")
	if err != nil {
		return "", err
	}
	defer os.RemoveAll(tmp)
	tmpls, err := filepath.Glob(filepath.Join(src, "*_type.got"))
	if err != nil {
		return "", err
	}
	sort.Strings(tmpls)
	if len(tmpls) != 6 {
		return "", fmt.Errorf("expected six *_type.got templates in %s, found %d", src, len(tmpls))
	}
	for _, f := range append(tmpls, filepath.Join(src, "genCode.sh")) {
		b, err := os.ReadFile(f)
		if err != nil {
			return "", err
		}
		if err := os.WriteFile(filepath.Join(tmp, filepath.Base(f)), b, 0o644); err != nil {
			return "", err
		}
	}
	cmd := exec.Command("bash", "genCode.sh")
	cmd.Dir = tmp
	if out, err := cmd.CombinedOutput(); err != nil {
		return "", fmt.Errorf("genCode.sh failed: %v: %s", err, out)
	}
	var sb strings.Builder
	sb.WriteString("namespace Biogo.Generated.AlignTemplates\n\n")
	sb.WriteString("/-! For each generated aligner file: is the committed file byte-for-byte the output of\n    `genCode.sh` (the `gofmt -r` pipeline) on its `*_type.got` template? -/\n\n")
	var names []string
	for _, t := range tmpls {
		base := strings.TrimSuffix(filepath.Base(t), "_type.got")
		for _, variant := range []string{"letters", "qletters"} {
			name := base + "_" + variant
			want, err := os.ReadFile(filepath.Join(tmp, name+".go"))
			if err != nil {
				return "", fmt.Errorf("genCode.sh did not produce %s.go", name)
			}
			got, err := os.ReadFile(filepath.Join(src, name+".go"))
			same := err == nil && bytes.Equal(want, got) && len(want) > 0
			fmt.Fprintf(&sb, "def %s : Bool := %v\n", name, same)
			names = append(names, name)
		}
	}
	// no generated file may exist that the script does not produce
	extra, _ := filepath.Glob(filepath.Join(src, "*letters.go"))
	fmt.Fprintf(&sb, "\ndef generatedFileCount : Nat := %d\n", len(extra))
	list := func(keep func(string) bool) string {
		var xs []string
		for _, n := range names {
			if keep(n) {
				xs = append(xs, fmt.Sprintf("(%q, %s)", n, n))
			}
		}
		return strings.Join(xs, ", ")
	}
	fmt.Fprintf(&sb, "\ndef all : List (String × Bool) := [%s]\n", list(func(string) bool { return true }))
	fmt.Fprintf(&sb, "\n/-- the linear-gap aligners' files -/\ndef linear : List (String × Bool) := [%s]\n",
		list(func(n string) bool { return !strings.Contains(n, "affine") }))
	fmt.Fprintf(&sb, "\n/-- the affine-gap aligners' files -/\ndef affine : List (String × Bool) := [%s]\n",
		list(func(n string) bool { return strings.Contains(n, "affine") }))
	sb.WriteString("\nend Biogo.Generated.AlignTemplates\n")
	return sb.String(), nil
}

func init() {
	hx.Register(&hx.Prop{ID: "C09", Part: "lin", Ops: alinOps, Gen: c09linGen, Exec: alinExec, Shrink: alinShrink})
	hx.RegisterFacts(hx.FactGen{File: "AlignTemplates.lean", Gen: alignTemplateFacts})
}
