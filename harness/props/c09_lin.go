package props

// C09 (part lin) — alignment descriptions of NW, SW and Fitted are well-formed, faithfully
// scored, type-independent and total.  Inputs, executor and observation are those of
// c08_lin.go; this generator adds the ill-typed inputs (illegal letters at every position,
// differing alphabet objects, Letters against QLetters, short / ragged / undersized
// matrices, alphabets without a gap letter at index 0, no alphabet).
//
// It also owns the static fact common to all six aligners: the twelve generated
// `*_letters.go` / `*_qletters.go` files are byte-for-byte what genCode.sh produces from
// the six `*_type.got` templates (Biogo/Generated/AlignTemplates.lean).

import (
	"bytes"
	"fmt"
	"os"
	"os/exec"
	"path/filepath"
	"sort"
	"strings"

	"verif/harness/hx"
)

func alinIllTyped(g *hx.Gen) {
	fam3 := alinFamily(3)
	at3 := alinAlphaTok("-ab", true, '-')
	seqs := alinSeqs("ab", 1, g.Scale(3, 4))
	mt := alinMatrixTok(fam3[0])
	// an illegal letter at every position of each sequence (and of both)
	for _, op := range alinOps {
		for _, r := range seqs {
			for _, q := range seqs {
				if g.Done() {
					return
				}
				if (len(r)+len(q))%2 == 1 && !g.Thorough() && len(r)+len(q) > 4 {
					continue
				}
				for i := 0; i < len(r); i++ {
					rb := []byte(r)
					rb[i] = 'z'
					g.Casef("%s %s %s %s %s LL", op, at3, mt, hx.Hex(rb), hx.Hex([]byte(q)))
				}
				for j := 0; j < len(q); j++ {
					qb := []byte(q)
					qb[j] = '!'
					g.Casef("%s %s %s %s %s LL", op, at3, mt, hx.Hex([]byte(r)), hx.Hex(qb))
				}
				rb, qb := []byte(r), []byte(q)
				rb[len(rb)-1], qb[0] = 'Z', 0xff
				g.Casef("%s %s %s %s %s LL", op, at3, mt, hx.Hex(rb), hx.Hex(qb))
			}
		}
	}
	// matrices: empty, short, long, ragged at every row, undersized but square, oversized
	dna := alinAlphaTok(alinDNA, false, '-')
	var mats [][][]int
	full := alinFamily(5)[0]
	mats = append(mats, nil, [][]int{{}}, [][]int{{0}}, alinFamily(4)[0], alinFamily(3)[1], alinFamily(6)[0], alinFamily(7)[3])
	for i := 0; i < 5; i++ {
		for _, d := range []int{-1, 1} {
			m := make([][]int, 5)
			for k := range m {
				m[k] = append([]int{}, full[k]...)
			}
			if d < 0 {
				m[i] = m[i][:4]
			} else {
				m[i] = append(m[i], 0)
			}
			mats = append(mats, m)
		}
	}
	mats = append(mats, full[:4], append(append([][]int{}, full...), []int{0, 0, 0, 0, 0}), append(append([][]int{}, full...), []int{0, 0, 0, 0, 0, 0}))
	{ // 6 rows of 5, 4 rows of 5, 5 rows with an empty one
		m := append([][]int{}, full...)
		m[2] = []int{}
		mats = append(mats, m)
	}
	dnaSeqs := []string{"a", "acgt", "ttgaca", "t", "gat-ta", "ACGT"}
	for _, op := range alinOps {
		for _, m := range mats {
			for _, r := range dnaSeqs {
				for _, q := range []string{"c", "gatt", "tgca"} {
					if g.Done() {
						return
					}
					g.Casef("%s %s %s %s %s LL", op, dna, alinMatrixTok(m), hx.Hex([]byte(r)), hx.Hex([]byte(q)))
				}
			}
		}
	}
	// modes: slice types, alphabet objects, alphabets without a gap at index 0, combinations
	// with an illegal letter and with a bad matrix (which error comes first is modelled)
	nogap := alinAlphaTok("acgt", false, '-') // alphabet.DNA
	gapLast := alinAlphaTok("ab-", true, '-')
	for _, op := range alinOps {
		for _, mode := range []string{"LQ", "QL", "A2", "NA", "LL"} {
			for _, at := range []string{dna, nogap, gapLast, at3} {
				for _, m := range [][][]int{full, full[:4], fam3[0], nil} {
					for _, rq := range [][2]string{{"acgt", "gat"}, {"ab", "ba"}, {"a", "a"}, {"az", "a"}, {"a", "za"}} {
						if g.Done() {
							return
						}
						g.Casef("%s %s %s %s %s %s", op, at, alinMatrixTok(m), hx.Hex([]byte(rq[0])), hx.Hex([]byte(rq[1])), mode)
					}
				}
			}
		}
	}
	// empty sequences (outside the property's quantifier; model and code must still agree)
	for _, op := range alinOps {
		for _, rq := range [][2]string{{"", ""}, {"", "ab"}, {"ab", ""}, {"", "z"}, {"z", ""}} {
			g.Casef("%s %s %s %s %s LL", op, at3, mt, hx.Hex([]byte(rq[0])), hx.Hex([]byte(rq[1])))
		}
	}
	// random: a legal random case with letters replaced by illegal ones at random places
	n := g.Scale(3000, 20000)
	for k := 0; k < n && !g.Done(); k++ {
		f := hx.Fields(alinRandomCase(g, 40))
		for _, idx := range []int{3, 4} {
			if g.Chance(0.6) {
				b := hx.Unhex(f[idx])
				for c := g.Pick(1, 1, 2, 3); c > 0; c-- {
					b[g.Intn(len(b))] = byte(g.Pick('!', 'Z', 'j', 'o', 'u', 0, 255, '.'))
				}
				f[idx] = hx.Hex(b)
			}
		}
		if g.Chance(0.15) {
			f[5] = []string{"LQ", "QL", "A2", "NA"}[g.Intn(4)]
		}
		g.Case(strings.Join(f, " "))
	}
}

func c09linGen(g *hx.Gen) {
	alinIllTyped(g)
	// the well-typed inputs of C08: exhaustive small part and random pairs
	alinExhaustive(g, "-ab", g.Scale(3, 4), 1)
	alinExhaustive(g, "-abc", 3, g.Scale(2, 1))
	n := g.Scale(3000, 30000)
	for k := 0; k < n && !g.Done(); k++ {
		def := []string{"-ab", "-abc"}[g.Intn(2)]
		m := alinRandMatrix(g, len(def))
		r := g.Letters(def[1:], g.Range(1, 6))
		q := g.Letters(def[1:], g.Range(1, 6))
		g.Casef("%s %s %s %s %s LL", alinOps[g.Intn(3)], alinAlphaTok(def, true, '-'), alinMatrixTok(m), hx.Hex(r), hx.Hex(q))
	}
	n = g.Scale(4000, 60000)
	for k := 0; k < n && !g.Done(); k++ {
		g.Case(alinRandomCase(g, g.Scale(120, 200)))
	}
}

// ---- regenerated fact: generated files = genCode.sh(templates) ------------------------

// alignTemplateFacts copies the six templates and genCode.sh into a scratch directory,
// runs the script there (the installed gofmt) and compares each of the twelve outputs
// byte-for-byte with the committed generated file.
func alignTemplateFacts(repo string) (string, error) {
	src := filepath.Join(repo, "align")
	tmp, err := os.MkdirTemp("", "verif-aligngen-")
	if err != nil {
		return "", err
	}
	defer os.RemoveAll(tmp)
	tmpls, err := filepath.Glob(filepath.Join(src, "*_type.got"))
	if err != nil {
		return "", err
	}
	sort.Strings(tmpls)
	if len(tmpls) != 6 {
		return "", fmt.Errorf("expected six *_type.got templates in %s, found %d", src, len(tmpls))
	}
	for _, f := range append(tmpls, filepath.Join(src, "genCode.sh")) {
		b, err := os.ReadFile(f)
		if err != nil {
			return "", err
		}
		if err := os.WriteFile(filepath.Join(tmp, filepath.Base(f)), b, 0o644); err != nil {
			return "", err
		}
	}
	cmd := exec.Command("bash", "genCode.sh")
	cmd.Dir = tmp
	if out, err := cmd.CombinedOutput(); err != nil {
		return "", fmt.Errorf("genCode.sh failed: %v: %s", err, out)
	}
	var sb strings.Builder
	sb.WriteString("namespace Biogo.Generated.AlignTemplates\n\n")
	sb.WriteString("/-! For each generated aligner file: is the committed file byte-for-byte the output of\n    `genCode.sh` (the `gofmt -r` pipeline) on its `*_type.got` template? -/\n\n")
	var names []string
	for _, t := range tmpls {
		base := strings.TrimSuffix(filepath.Base(t), "_type.got")
		for _, variant := range []string{"letters", "qletters"} {
			name := base + "_" + variant
			want, err := os.ReadFile(filepath.Join(tmp, name+".go"))
			if err != nil {
				return "", fmt.Errorf("genCode.sh did not produce %s.go", name)
			}
			got, err := os.ReadFile(filepath.Join(src, name+".go"))
			same := err == nil && bytes.Equal(want, got) && len(want) > 0
			fmt.Fprintf(&sb, "def %s : Bool := %v\n", name, same)
			names = append(names, name)
		}
	}
	// no generated file may exist that the script does not produce
	extra, _ := filepath.Glob(filepath.Join(src, "*letters.go"))
	fmt.Fprintf(&sb, "\ndef generatedFileCount : Nat := %d\n", len(extra))
	list := func(keep func(string) bool) string {
		var xs []string
		for _, n := range names {
			if keep(n) {
				xs = append(xs, fmt.Sprintf("(%q, %s)", n, n))
			}
		}
		return strings.Join(xs, ", ")
	}
	fmt.Fprintf(&sb, "\ndef all : List (String × Bool) := [%s]\n", list(func(string) bool { return true }))
	fmt.Fprintf(&sb, "\n/-- the linear-gap aligners' files -/\ndef linear : List (String × Bool) := [%s]\n",
		list(func(n string) bool { return !strings.Contains(n, "affine") }))
	fmt.Fprintf(&sb, "\n/-- the affine-gap aligners' files -/\ndef affine : List (String × Bool) := [%s]\n",
		list(func(n string) bool { return strings.Contains(n, "affine") }))
	sb.WriteString("\nend Biogo.Generated.AlignTemplates\n")
	return sb.String(), nil
}

func init() {
	hx.Register(&hx.Prop{ID: "C09", Part: "lin", Ops: alinOps, Gen: c09linGen, Exec: alinExec, Shrink: alinShrink})
	hx.RegisterFacts(hx.FactGen{File: "AlignTemplates.lean", Gen: alignTemplateFacts})
}
