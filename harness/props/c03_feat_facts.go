package props

// Facts regenerated from io/featio/{bed,gff} on every run (Biogo/Generated/FeatIO.lean):
// the field-index constants, gff.Version, and — per reader function — every length guard
// `len(x) <op> y` and every constant index expression `x[k]`, in source order, as text.
// Biogo/Properties/C03_feat.lean states what the models assume about them; a guard that
// disappears or a constant that moves breaks that example.

import (
	"bytes"
	"fmt"
	"go/ast"
	"go/parser"
	"go/printer"
	"go/token"
	"path/filepath"
	"strconv"
	"strings"

	"verif/harness/hx"
)

func init() {
	hx.RegisterFacts(hx.FactGen{File: "FeatIO.lean", Gen: featioFacts})
}

func fioExprString(fset *token.FileSet, e ast.Node) string {
	var buf bytes.Buffer
	printer.Fprint(&buf, fset, e)
	return strings.Join(strings.Fields(buf.String()), " ")
}

// iota constants of the first const block that declares `first`
func fioIotaConsts(file *ast.File, first string) ([]string, error) {
	for _, d := range file.Decls {
		gd, ok := d.(*ast.GenDecl)
		if !ok || gd.Tok != token.CONST || len(gd.Specs) == 0 {
			continue
		}
		vs, ok := gd.Specs[0].(*ast.ValueSpec)
		if !ok || len(vs.Names) != 1 || vs.Names[0].Name != first {
			continue
		}
		if len(vs.Values) != 1 {
			return nil, fmt.Errorf("%s is not declared with iota", first)
		}
		if id, ok := vs.Values[0].(*ast.Ident); !ok || id.Name != "iota" {
			return nil, fmt.Errorf("%s is not declared as plain iota", first)
		}
		var names []string
		for _, s := range gd.Specs {
			v := s.(*ast.ValueSpec)
			if len(v.Names) != 1 || (s != gd.Specs[0] && len(v.Values) != 0) {
				return nil, fmt.Errorf("unexpected shape of the %s const block", first)
			}
			names = append(names, v.Names[0].Name)
		}
		return names, nil
	}
	return nil, fmt.Errorf("const block starting with %s not found", first)
}

func fioGuards(fset *token.FileSet, file *ast.File, funcs []string) (map[string][]string, error) {
	out := map[string][]string{}
	for _, d := range file.Decls {
		fd, ok := d.(*ast.FuncDecl)
		if !ok || fd.Body == nil {
			continue
		}
		want := false
		for _, f := range funcs {
			if fd.Name.Name == f {
				want = true
			}
		}
		if !want {
			continue
		}
		var facts []string
		ast.Inspect(fd.Body, func(n ast.Node) bool {
			switch e := n.(type) {
			case *ast.BinaryExpr:
				// len(x) <op> y
				if c, ok := e.X.(*ast.CallExpr); ok {
					if id, ok := c.Fun.(*ast.Ident); ok && id.Name == "len" {
						switch e.Op {
						case token.LSS, token.LEQ, token.GTR, token.GEQ, token.EQL, token.NEQ:
							facts = append(facts, "guard "+fioExprString(fset, e))
						}
					}
				}
				// l <op> y where l := len(c) (bed.mustAtoRgb)
				if id, ok := e.X.(*ast.Ident); ok && id.Name == "l" {
					switch e.Op {
					case token.LSS, token.LEQ, token.GTR, token.GEQ, token.EQL, token.NEQ:
						facts = append(facts, "guard "+fioExprString(fset, e))
					}
				}
			case *ast.IndexExpr:
				// x[k] with k a literal or an identifier ending in Field
				switch k := e.Index.(type) {
				case *ast.BasicLit:
					facts = append(facts, "index "+fioExprString(fset, e))
				case *ast.Ident:
					if strings.HasSuffix(k.Name, "Field") {
						facts = append(facts, "index "+fioExprString(fset, e))
					}
				}
			case *ast.CallExpr:
				// mustAto*(fields, k, line): an index hidden in a helper
				if id, ok := e.Fun.(*ast.Ident); ok && strings.HasPrefix(id.Name, "mustAto") && len(e.Args) == 3 {
					facts = append(facts, "index "+fioExprString(fset, e.Args[0])+"["+fioExprString(fset, e.Args[1])+"] via "+id.Name)
				}
			}
			return true
		})
		out[fd.Name.Name] = facts
	}
	for _, f := range funcs {
		if _, ok := out[f]; !ok {
			return nil, fmt.Errorf("function %s not found", f)
		}
	}
	return out, nil
}

func fioLeanStrings(xs []string) string {
	qs := make([]string, len(xs))
	for i, x := range xs {
		qs[i] = strconv.Quote(x)
	}
	return "[" + strings.Join(qs, ",\n   ") + "]"
}

func featioFacts(repo string) (string, error) {
	fset := token.NewFileSet()
	gffFile, err := parser.ParseFile(fset, filepath.Join(repo, "io", "featio", "gff", "gff.go"), nil, 0)
	if err != nil {
		return "", err
	}
	bedFile, err := parser.ParseFile(fset, filepath.Join(repo, "io", "featio", "bed", "bed.go"), nil, 0)
	if err != nil {
		return "", err
	}
	var sb strings.Builder
	sb.WriteString("namespace Biogo.Generated.FeatIO\n\n")
	gffFields, err := fioIotaConsts(gffFile, "nameField")
	if err != nil {
		return "", err
	}
	bedFields, err := fioIotaConsts(bedFile, "chromField")
	if err != nil {
		return "", err
	}
	fmt.Fprintf(&sb, "/-- the iota block of gff.go, in order (value = position) -/\ndef gffFields : List String := %s\n\n", fioLeanStrings(gffFields))
	fmt.Fprintf(&sb, "/-- the iota block of bed.go, in order (value = position) -/\ndef bedFields : List String := %s\n\n", fioLeanStrings(bedFields))
	// const Version = 2
	version := ""
	for _, d := range gffFile.Decls {
		if gd, ok := d.(*ast.GenDecl); ok && gd.Tok == token.CONST {
			for _, s := range gd.Specs {
				vs := s.(*ast.ValueSpec)
				if len(vs.Names) == 1 && vs.Names[0].Name == "Version" && len(vs.Values) == 1 {
					version = fioExprString(fset, vs.Values[0])
				}
			}
		}
	}
	if version == "" {
		return "", fmt.Errorf("gff.Version not found")
	}
	fmt.Fprintf(&sb, "def gffVersion : String := %s\n\n", strconv.Quote(version))
	gg, err := fioGuards(fset, gffFile, []string{"Read", "commentMetaline", "metaSeq", "mustAtoa", "mustAtos", "mustAtofPtr", "mustAtoFr"})
	if err != nil {
		return "", err
	}
	for _, f := range []string{"Read", "commentMetaline", "metaSeq", "mustAtoa", "mustAtos", "mustAtofPtr", "mustAtoFr"} {
		fmt.Fprintf(&sb, "/-- length guards and constant indexings of gff.%s, in source order -/\ndef gff_%s : List String :=\n  %s\n\n", f, f, fioLeanStrings(gg[f]))
	}
	bfuncs := []string{"parseBed3", "parseBed4", "parseBed5", "parseBed6", "parseBed12", "mustAtoRgb", "mustAtos", "mustAtoa", "Read"}
	bg, err := fioGuards(fset, bedFile, bfuncs)
	if err != nil {
		return "", err
	}
	for _, f := range bfuncs {
		fmt.Fprintf(&sb, "/-- length guards and constant indexings of bed.%s, in source order -/\ndef bed_%s : List String :=\n  %s\n\n", f, f, fioLeanStrings(bg[f]))
	}
	sb.WriteString("end Biogo.Generated.FeatIO\n")
	return sb.String(), nil
}
