package props

// C03 (part feat) — the BED (each column count) and GFF readers are total.
//
// Inputs
//   bedr <N> <hex bytes>      every Read of a BED reader of width N until io.EOF
//   gffr <hex bytes>          the same for the GFF reader
//
// Observation: the calls (see fioReadAll in c02.go); for GFF also the reader's metadata and the
// values of strconv.ParseFloat / time.Parse at the fields of the input (the two library parsers
// that the model takes as parameters).

import (
	"bytes"
	"fmt"
	"strconv"
	"strings"
	"time"

	"github.com/biogo/biogo/alphabet"
	"github.com/biogo/biogo/io/featio/bed"
	"github.com/biogo/biogo/io/featio/gff"
	"github.com/biogo/biogo/seq/linear"

	"verif/harness/hx"
)

func init() {
	hx.Register(&hx.Prop{ID: "C03", Part: "feat", Ops: []string{"bedr", "gffr", "dt", "dtf"}, Gen: c03FeatGen, Exec: c03FeatExec, Shrink: fioShrink})
}

func c03FeatExec(input string) string {
	f := hx.Fields(input)
	switch f[0] {
	case "bedr":
		return fioReadBed(hx.Unhex(f[2]), hx.Atoi(f[1]))
	case "gffr":
		data := hx.Unhex(f[1])
		return fioReadGff(data) + " | " + fioOracles(data)
	case "dt": // time.Parse(gff.Astronomical, s): "ok <year> <month> <day>" or "err"
		t, err := time.Parse(gff.Astronomical, string(hx.Unhex(f[1])))
		if err != nil {
			return "err"
		}
		return fmt.Sprintf("ok %d %d %d", t.Year(), int(t.Month()), t.Day())
	case "dtf": // Time.Format(gff.Astronomical)
		t := time.Date(hx.Atoi(f[1]), time.Month(hx.Atoi(f[2])), hx.Atoi(f[3]), 0, 0, 0, 0, time.UTC)
		return hx.Hex([]byte(t.Format(gff.Astronomical)))
	}
	panic("c03 feat: bad input " + input)
}

// fioShrink: drop one line, drop one tab-separated field of one line, drop one byte
func fioShrink(input string) []string {
	f := hx.Fields(input)
	if len(f) < 2 || f[0] == "dtf" {
		return nil
	}
	data := hx.Unhex(f[len(f)-1])
	head := strings.Join(f[:len(f)-1], " ")
	var out []string
	add := func(b []byte) {
		if len(b) < len(data) {
			out = append(out, head+" "+hx.Hex(b))
		}
	}
	lines := bytes.SplitAfter(data, []byte{'\n'})
	for i := range lines {
		var b []byte
		for j, l := range lines {
			if j != i {
				b = append(b, l...)
			}
		}
		add(b)
	}
	if len(data) <= 400 {
		for i := range data {
			add(append(append([]byte{}, data[:i]...), data[i+1:]...))
		}
	}
	return out
}

// ---------------------------------------------------------------------------------
// valid files

func fioBedFile(g *hx.Gen, n int, recs int) []byte {
	var buf bytes.Buffer
	w, _ := bed.NewWriter(&buf, n)
	for i := 0; i < recs; i++ {
		b := fioBed(g)
		w.Write(b.record(12))
	}
	return buf.Bytes()
}

var fioDates = []string{"2020-1-02", "1999-12-31", "2000-2-29", "2024-02-29", "2023-2-29", "2020-13-01", "2020-1-2", "20-1-02", "2020-1-02 x", "2020-0-10", "2020-4-31", "0000-1-01", "2020-1-00", "2020-10-10", "x", ""}

func fioGffFile(g *hx.Gen, items int, valid bool) []byte {
	var buf bytes.Buffer
	width := g.Pick(1, 3, 10, 60)
	if g.Chance(0.05) {
		width = g.Pick(4095, 4096, 5000, 20000)
	}
	w := gff.NewWriter(&buf, width, g.Chance(0.5))
	for i := 0; i < items; i++ {
		switch g.Intn(12) {
		case 0:
			w.WriteComment(fioText(g, " #;"))
		case 1:
			buf.WriteString("\n")
		case 2:
			w.WriteMetaData([]string{"Type DNA", "Type RNA chrX", "type protein", "Type Protein p53 extra", "Type junk"}[g.Intn(5)])
		case 3:
			w.WriteMetaData("source-version " + fioText(g, " "))
		case 4:
			if valid {
				w.WriteMetaData(time.Date(1900+g.Intn(200), time.Month(1+g.Intn(12)), 1+g.Intn(28), 0, 0, 0, 0, time.UTC))
			} else {
				w.WriteMetaData("date " + fioDates[g.Intn(len(fioDates))])
			}
		case 5:
			s := g.Intn(1000)
			w.Write(&gff.Region{Sequence: gff.Sequence{SeqName: fioName(g)}, RegionStart: s, RegionEnd: s + 1 + g.Intn(1000)})
		case 6:
			mol := g.Intn(3)
			ln := g.Pick(1, 2, 9, 10, 11, 61, 130)
			if g.Chance(0.04) || (width > 1000 && g.Chance(0.5)) {
				// inline sequence blocks (and, with a large width, single lines) beyond the reader's buffer
				ln = g.Pick(4000, 4093, 4094, 4095, 4096, 4097, 5000, 8191, 8192, 8193, 12000)
			}
			s := linear.NewSeq(fioName(g), alphabet.BytesToLetters(fioLetters(g, mol, ln)), fioAlphas[mol])
			if g.Chance(0.3) {
				s.Desc = fioText(g, " ")
			}
			w.Write(s)
		default:
			f := fioGff(g)
			w.Write(f.record())
		}
	}
	return buf.Bytes()
}

var fioNumTokens = []string{"0", "-0", "+0", "00", "1", "-1", "+1", "0x10", "0X1f", "0b101", "0B11", "0o17", "0O7", "017", "1_000", "_1", "1_", "0_1", "0x_1", "0_x1",
	"9223372036854775807", "9223372036854775808", "-9223372036854775808", "-9223372036854775809", "18446744073709551615", "18446744073709551616",
	"99999999999999999999999", "1e3", "1.5", "", " 1", "1 ", "\uff11", "0x", "0b", "0o", "-", "+", "--1", "+-1", "0x8000000000000000", "-0x8000000000000000",
	"0x7fffffffffffffff", "0b2", "08", "0o8", "1__0", "0x1_", "0x1_f", "Inf", "NaN", "inf", "+Inf", "-Inf", "1e400", "-1e400", "1e-400", "0x1p-2", "1_0.5", ".", "..", ".5", "5.",
	"1e", "e1", "infinity", "nan", "-nan", "0x1.8p1", "1_0e1_0", "0b1e1", "127", "128", "-128", "-129", "255", "256", "2", "3", "12a", "a", "0xg", "0_", "0__1", "1_2_3", "+0x1F", "-0b1", "0X_F",
	"0.1e-2", "1E5", "1e+5", "\uff11\uff12", "1\u00a0", "\u00a01", "\u20001"}

// colour and comma-list columns of BED12
var fioListTokens = []string{"0", "1", "1,2", "1,2,3", "1,2,3,4", "1,2,3,4,5", "256,0,0", "255,255,255", "-1,0,0", ",,", "1,,3", ",", "0,0", "0,0,0", "00", "0x0",
	"1,2,", ",1,2", "1,x", "3,4", "3,4,", "3,,4", "3", "", "1 ,2,3", "+1,2,3", "0x10,010,0b1", "1_0,2,3", "3,4,5", "9223372036854775808,1"}

var fioStrandTokens = []string{"+", "-", ".", "", "++", "?", "x", "+-", " ", "0", "1"}

func fioTok(g *hx.Gen) string {
	if g.Chance(0.12) {
		return fioListTokens[g.Intn(len(fioListTokens))]
	}
	switch g.Intn(6) {
	case 0, 1, 2:
		return fioNumTokens[g.Intn(len(fioNumTokens))]
	case 3:
		return fioStrandTokens[g.Intn(len(fioStrandTokens))]
	case 4:
		return strconv.Itoa(fioInt(g))
	}
	return fioText(g, " #;")
}

const fioBytePool = "\t\t\t\n\n\r #;.,+-_0123456789abxoXe \"'=chrDNAend##"

func fioRandomBytes(g *hx.Gen) []byte {
	n := g.Pick(0, 1, 2, 3, 5, 10, 30, 80, 300)
	b := make([]byte, n)
	for i := range b {
		switch g.Intn(8) {
		case 0:
			b[i] = byte(g.Intn(256))
		case 1:
			b[i] = []byte{0x85, 0xa0, 0xc2, 0xe2, 0x80, 0xe1, 0x9a, 0xe3, 0xa8, 0x8a, 0x81, 0x9f, 0xaf}[g.Intn(13)]
		default:
			b[i] = fioBytePool[g.Intn(len(fioBytePool))]
		}
	}
	return b
}

var fioSpaceRunes = []string{"\u0085", "\u00a0", "\u1680", "\u2000", "\u2001", "\u200a", "\u2028", "\u2029", "\u202f", "\u205f", "\u3000", "\u200b", "\u00e0", "\xa0", "\x85", "\xc2", "\xe2\x80",
	" ", "\t", "\v", "\f", "\r", "\x1c", "\x00", "\u180e", "\ufeff", "\u2007", "\xe2\x80\x8b", "\xe1\x9a", "\xe3\x80\x80\x80"}

// fioMutate applies one byte/field/line mutation
func fioMutate(g *hx.Gen, data []byte) []byte {
	lines := bytes.SplitAfter(data, []byte{'\n'})
	if len(lines) > 0 && len(lines[len(lines)-1]) == 0 {
		lines = lines[:len(lines)-1]
	}
	if len(lines) == 0 {
		return fioRandomBytes(g)
	}
	li := g.Intn(len(lines))
	line := lines[li]
	term := ""
	if bytes.HasSuffix(line, []byte{'\n'}) {
		term = "\n"
		line = line[:len(line)-1]
	}
	sep := "\t"
	if bytes.HasPrefix(line, []byte("##")) && g.Chance(0.8) {
		sep = " "
	}
	fields := strings.Split(string(line), sep)
	fi := g.Intn(len(fields))
	switch g.Intn(12) {
	case 0: // delete a column
		fields = append(fields[:fi:fi], fields[fi+1:]...)
	case 1: // duplicate a column
		fields = append(fields[:fi+1:fi+1], fields[fi:]...)
	case 2: // empty a field
		fields[fi] = ""
	case 3, 4: // numeric boundary value / odd token
		fields[fi] = fioTok(g)
	case 5: // keep only the first k columns
		fields = fields[:fi]
	case 6: // white-space runes around a field or the line
		s := fioSpaceRunes[g.Intn(len(fioSpaceRunes))]
		switch g.Intn(3) {
		case 0:
			fields[fi] = s + fields[fi]
		case 1:
			fields[fi] = fields[fi] + s
		case 2:
			fields[len(fields)-1] += s
		}
	case 7: // delete the line
		lines = append(lines[:li:li], lines[li+1:]...)
		return bytes.Join(lines, nil)
	case 8: // duplicate the line
		lines = append(lines[:li+1:li+1], lines[li:]...)
		return bytes.Join(lines, nil)
	case 9: // flip / insert / delete a byte anywhere
		d := append([]byte{}, data...)
		if len(d) == 0 {
			return d
		}
		p := g.Intn(len(d))
		switch g.Intn(3) {
		case 0:
			d[p] = fioBytePool[g.Intn(len(fioBytePool))]
		case 1:
			d = append(d[:p], d[p+1:]...)
		case 2:
			d = append(d[:p+1], d[p:]...)
			d[p] = fioBytePool[g.Intn(len(fioBytePool))]
		}
		return d
	case 10: // terminator changes
		switch g.Intn(3) {
		case 0:
			term = "\r\n"
		case 1:
			term = ""
		case 2:
			term = " \n"
		}
	case 11: // truncate the file
		return data[:g.Intn(len(data)+1)]
	}
	lines[li] = []byte(strings.Join(fields, sep) + term)
	return bytes.Join(lines, nil)
}

// fioBoundaryFiles: LF-terminated files with one physical line whose content is exactly L bytes,
// L around one and two buffer sizes of bufio.NewReader: a BED4 line, a GFF feature line, a
// line of a GFF inline sequence and the "##DNA <id>" line that opens it; the long line in
// the middle of the file or last.  k varies the content (and with it the io.Reader behaviour
// sioSource picks).
type fioBoundaryFile struct {
	bed  bool
	data []byte
}

var fioBoundaryLens = []int{4094, 4095, 4096, 4097, 4098, 8190, 8191, 8192, 8193, 8194}

func fioBoundaryFiles(g *hx.Gen, variants int) []fioBoundaryFile {
	var out []fioBoundaryFile
	pad := func(prefix string, L int) string {
		n := L - len(prefix)
		return prefix + string(g.Letters("acgt", n))
	}
	for _, L := range fioBoundaryLens {
		for k := 0; k < variants; k++ {
			short := fmt.Sprintf("chr2\t5\t%d\tn%d\n", 20+k, k)
			long := pad("chr1\t1\t10\t", L) + "\n"
			out = append(out, fioBoundaryFile{true, []byte(short + long)}, fioBoundaryFile{true, []byte(long + short)})
			gshort := fmt.Sprintf("chr2\tsrc\tgene\t5\t%d\t.\t+\t.\n", 20+k)
			glong := pad("chr1\tsrc\tgene\t10\t20\t.\t+\t.\tNote ", L) + "\n"
			out = append(out, fioBoundaryFile{false, []byte(gshort + glong)}, fioBoundaryFile{false, []byte(glong + gshort)})
			seq := fmt.Sprintf("##DNA s%d\n", k) + pad("##", L) + "\n##end-DNA\n"
			out = append(out, fioBoundaryFile{false, []byte(seq)}, fioBoundaryFile{false, []byte(seq + gshort)})
			// the last line of the block (the end marker) pushed to the boundary by trailing blanks is
			// not valid; a long id line is
			id := pad("##DNA ", L) + "\n##acgt\n##end-DNA\n"
			out = append(out, fioBoundaryFile{false, []byte(id)})
		}
	}
	return out
}

var fioMetaKeywords = []string{"gff-version", "source-version", "date", "Type", "type", "sequence-region", "DNA", "RNA", "Protein", "dna", "rna", "protein", "end-DNA", "", "unknown", "GFF-VERSION"}
var fioMetaArgs = []string{"2", "1", "3", "0", "-1", "x", "chr1", "10", "DNA", "RNA", "protein", "2020-1-02", "9223372036854775808", "", "0x10", "1_0"}

func c03FeatGen(g *hx.Gen) {
	// (c) enumerated families -------------------------------------------------------
	// lines with exactly k = 0..13 tab separated fields: a valid BED12 / GFF prefix and tokens
	validBed := strings.Split("chr1\t10\t20\tname\t5\t+\t12\t18\t255,0,0\t2\t3,4\t0,6\textra", "\t")
	validGff := strings.Split("chr1\tsrc\tgene\t10\t20\t0.5\t+\t0\tID x; Note \"y z\"\tcomment\tmore\ttail\tlast", "\t")
	for k := 0; k <= 13; k++ {
		for _, term := range []string{"\n", "", "\r\n"} {
			lb := strings.Join(validBed[:k], "\t") + term
			lg := strings.Join(validGff[:k], "\t") + term
			for _, n := range fioWidths {
				g.Casef("bedr %d %s", n, hx.Hex([]byte(lb)))
			}
			g.Casef("gffr %s", hx.Hex([]byte(lg)))
			// the same with k empty fields
			if k > 0 {
				e := strings.Repeat("\t", k-1) + "x" + term
				g.Casef("gffr %s", hx.Hex([]byte(e)))
				g.Casef("bedr 12 %s", hx.Hex([]byte(e)))
			}
		}
	}
	// every metadata keyword with 0..4 arguments
	for _, kw := range fioMetaKeywords {
		for n := 0; n <= 4; n++ {
			for rep := 0; rep < 3; rep++ {
				args := []string{}
				for i := 0; i < n; i++ {
					switch rep {
					case 0:
						args = append(args, []string{"chr1", "1", "10", "x"}[i])
					case 1:
						args = append(args, []string{"2", "0", "10", "x"}[i])
					default:
						args = append(args, fioMetaArgs[g.Intn(len(fioMetaArgs))])
					}
				}
				line := "##" + strings.Join(append([]string{kw}, args...), " ")
				for _, tail := range []string{"\n", "", "\nchr1\tsrc\tgene\t10\t20\t.\t+\t.\n", "\n##acgt\n##end-" + kw + "\n", "\n##acgt\n##end-" + kw} {
					g.Casef("gffr %s", hx.Hex([]byte(line+tail)))
				}
			}
		}
	}
	// coordinate / strand / frame / score columns of a GFF line and of BED lines over the token lists
	for _, t := range fioNumTokens {
		for col := 3; col <= 7; col++ {
			f := append([]string{}, validGff[:9]...)
			f[col] = t
			g.Casef("gffr %s", hx.Hex([]byte(strings.Join(f, "\t")+"\n")))
		}
		for _, col := range []int{1, 2, 4, 6, 7, 8, 9, 10, 11} {
			f := append([]string{}, validBed[:12]...)
			f[col] = t
			g.Casef("bedr 12 %s", hx.Hex([]byte(strings.Join(f, "\t")+"\n")))
		}
		g.Casef("gffr %s", hx.Hex([]byte("##sequence-region chr "+t+" 10\n")))
		g.Casef("gffr %s", hx.Hex([]byte("##sequence-region chr 1 "+t+"\n")))
		g.Casef("gffr %s", hx.Hex([]byte("##gff-version "+t+"\n")))
	}
	for _, t := range fioStrandTokens {
		f := append([]string{}, validGff[:9]...)
		f[6] = t
		g.Casef("gffr %s", hx.Hex([]byte(strings.Join(f, "\t")+"\n")))
		b := append([]string{}, validBed[:12]...)
		b[5] = t
		g.Casef("bedr 6 %s", hx.Hex([]byte(strings.Join(b[:6], "\t")+"\n")))
		g.Casef("bedr 12 %s", hx.Hex([]byte(strings.Join(b, "\t")+"\n")))
	}
	for _, t := range fioListTokens {
		for _, col := range []int{8, 9, 10, 11} {
			f := append([]string{}, validBed[:12]...)
			f[col] = t
			g.Casef("bedr 12 %s", hx.Hex([]byte(strings.Join(f, "\t")+"\n")))
		}
	}
	for _, s := range fioSpaceRunes {
		g.Casef("gffr %s", hx.Hex([]byte(s+strings.Join(validGff[:9], "\t")+s+"\n")))
		g.Casef("gffr %s", hx.Hex([]byte("chr1\tsrc\tgene\t10\t20\t.\t+\t.\tID"+s+"x;"+s+"Note"+s+s+"y"+s+"\n")))
		g.Casef("gffr %s", hx.Hex([]byte("##DNA x\n##ac"+s+"gt"+s+"\n"+s+"##end-DNA"+s+"\n")))
		g.Casef("bedr 4 %s", hx.Hex([]byte(s+"chr1\t1\t2\tname"+s+"\n")))
	}
	// attribute fields
	for _, a := range []string{"", ";", ";;", "ID", "ID ", "ID x", "ID  x", "ID x;", "ID x ; Note y", "1D x", "ID2 x", "I-D x", " ;x", "ID\tx", "_ x", "ID \"a;b\"", "\u00e9 x", "ID \u00e9", "ID\u00a0x", "ID x\xa0", "ID \xa0", "ID\xa0", "\xa0ID x", "ID\x85\xa0 x"} {
		g.Casef("gffr %s", hx.Hex([]byte("chr1\tsrc\tgene\t10\t20\t.\t+\t.\t"+a+"\n")))
		g.Casef("gffr %s", hx.Hex([]byte("chr1\tsrc\tgene\t10\t20\t.\t+\t.\t"+a+"\tcomment\n")))
	}

	// physical lines on the boundaries of bufio's buffer, in the four terminator layouts
	for _, bf := range fioBoundaryFiles(g, g.Scale(1, 5)) {
		for _, d := range fioLayouts(bf.data) {
			if bf.bed {
				g.Casef("bedr 4 %s", hx.Hex(d))
			} else {
				g.Casef("gffr %s", hx.Hex(d))
			}
		}
	}

	// time.Parse / Time.Format with the layout of the ##date line: the fixed list, every month
	// and month end of leap and other years, and date-like strings under small mutations
	for _, d := range fioDates {
		g.Casef("dt %s", hx.Hex([]byte(d)))
	}
	for _, y := range []int{0, 1, 4, 100, 400, 1900, 1999, 2000, 2023, 2024, 2100, 9999} {
		for m := 1; m <= 12; m++ {
			for _, d := range []int{1, 9, 10, 28, 29, 30, 31} {
				g.Casef("dt %s", hx.Hex([]byte(fmt.Sprintf("%04d-%d-%02d", y, m, d))))
				if d <= 28 {
					g.Casef("dtf %d %d %d", y, m, d)
				}
			}
		}
	}
	for k := g.Scale(3000, 60000); k > 0 && !g.Done(); k-- {
		s := []byte(fmt.Sprintf("%04d-%d-%02d", g.Pick(0, 4, 1900, 2000, 2023, 2024, g.Intn(10000)), g.Range(0, 14), g.Range(0, 33)))
		if g.Chance(0.3) {
			s = []byte(fmt.Sprintf("%d-%02d-%d", g.Intn(12000), g.Range(0, 14), g.Range(0, 40)))
		}
		for m := g.Pick(0, 0, 1, 1, 2); m > 0 && len(s) > 0; m-- {
			i := g.Intn(len(s))
			switch g.Intn(4) {
			case 0:
				pool := "0123456789-+ /.x\xef"
				s[i] = pool[g.Intn(len(pool))]
			case 1:
				s = append(s[:i], s[i+1:]...)
			case 2:
				s = append(s[:i], append([]byte{"0123456789-+ "[g.Intn(13)]}, s[i:]...)...)
			case 3:
				s = s[:i]
			}
		}
		g.Casef("dt %s", hx.Hex(s))
	}

	// (b) valid files under mutations, (a) arbitrary bytes ---------------------------
	n := g.Scale(12000, 150000)
	for k := 0; k < n && !g.Done(); k++ {
		switch g.Intn(10) {
		case 0: // arbitrary bytes
			d := fioRandomBytes(g)
			if g.Chance(0.5) {
				g.Casef("gffr %s", hx.Hex(d))
			} else {
				g.Casef("bedr %d %s", fioWidths[g.Intn(5)], hx.Hex(d))
			}
		case 1, 2, 3: // BED file, 1..3 mutations, read at every width
			w := fioWidths[g.Intn(5)]
			d := fioBedFile(g, w, g.Pick(1, 1, 2, 3))
			for m := g.Pick(0, 1, 1, 1, 2, 3); m > 0; m-- {
				d = fioMutate(g, d)
			}
			g.Casef("bedr %d %s", w, hx.Hex(d))
			if g.Chance(0.3) {
				g.Casef("bedr %d %s", fioWidths[g.Intn(5)], hx.Hex(d))
			}
		case 4, 5, 6, 7: // GFF file
			d := fioGffFile(g, g.Pick(1, 1, 2, 3, 5), false)
			for m := g.Pick(0, 1, 1, 1, 2, 3); m > 0; m-- {
				d = fioMutate(g, d)
			}
			g.Casef("gffr %s", hx.Hex(d))
		case 8: // truncation at every byte offset of a small valid file
			if g.Chance(0.2) || g.Thorough() {
				if g.Chance(0.5) {
					w := fioWidths[g.Intn(5)]
					d := fioBedFile(g, w, g.Pick(1, 2))
					if len(d) > 600 {
						d = d[:600]
					}
					for i := 0; i <= len(d) && !g.Done(); i++ {
						g.Casef("bedr %d %s", w, hx.Hex(d[:i]))
					}
				} else {
					d := fioGffFile(g, g.Pick(1, 2, 3), false)
					if len(d) > 600 {
						d = d[:600]
					}
					for i := 0; i <= len(d) && !g.Done(); i++ {
						g.Casef("gffr %s", hx.Hex(d[:i]))
					}
				}
			}
		case 9: // one line with a random number of tab-separated tokens
			k := g.Intn(14)
			fs := make([]string, k)
			for i := range fs {
				fs[i] = fioTok(g)
			}
			line := strings.Join(fs, "\t") + []string{"\n", "", "\r\n"}[g.Intn(3)]
			if g.Chance(0.5) {
				g.Casef("gffr %s", hx.Hex([]byte(line)))
			} else {
				g.Casef("bedr %d %s", fioWidths[g.Intn(5)], hx.Hex([]byte(line)))
			}
		}
	}
	_ = fmt.Sprint
}
