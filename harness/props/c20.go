package props

// C20 — gene models: exons / introns / UTR-CDS partitions, nested positions and orientations,
// failure atomicity of rejected updates.
//
// Inputs (one line, space separated tokens; lists are `;` separated, `-` = empty)
//
//   xs <n> <cap> <exons> <op>*        history on a bare gene.Exons value, receiver built with
//                                     make(Exons, n, cap) and filled with <exons> unchecked
//        exon  = loc:start:len:tag    loc 0 = nil Transcript, 1..3 = three transcripts
//        op    = a=<exons>            r, err := s.Add(exons...); s = r
//                d=<exons>            r, err := s.Add(exons...); result dropped
//                t=<j>                s = s[:min(j,cap(s))]
//                o=<j>                s = s[min(j,len(s)):]
//                h=-                  held = s   (a second variable; with a later t=0 this is the reset
//                                     idiom: an empty receiver whose spare capacity is held's live data)
//   tx <c|n> <off>,<ori>,<cdsS>,<cdsE> <locchain> <op>*
//                                     history on a (coding | non-coding) transcript t whose
//                                     Loc is the first node of <locchain>
//        node  = kind:start:orient    kind o (custom Orienter) x (custom, no Orienter)
//                                     G (gene.Gene) C (genome.Chromosome); orient -1|0|1|x
//        op    = S=<exons>            err := t.SetExons(exons...)    (loc 1 = t, 2 and 3 = other transcripts, 0 = nil)
//                A=<exons>            _, err := t.Exons().Add(exons...)
//                R=<exons>            r, err := t.Exons().Add(exons...); if err == nil { err = t.SetExons(r...) }
//                Z<j>=<exons>         ex := t.Exons(); _, err := ex[:min(j,cap(ex))].Add(exons...)   (Z = Z0: the
//                                     reset idiom t.Exons()[:0].Add(…), an empty receiver whose spare
//                                     capacity is the transcript's live exon array)
//                O<k>=<o>             the orientation of feature k of the chain becomes o (-1|0|1): k = 0 is the
//                                     transcript itself (t.Orient = o), k >= 1 the k-th node of <locchain>
//                                     (Gene.Orient, a custom Orienter's orientation; not for kinds x and C)
//                M<k>=<s>             the start of feature k of the chain becomes s (t.Offset, Gene.Offset, …; not C)
//                                     after every operation, O and M included, the transcript is observed as
//                                     it is now: the UTRs must follow the *current* product of orientations
//   ch <nodes> <loop> <step>*         a feature chain, bottom-up; kinds o x G C and
//                                     E (gene.Exon) I (gene.Intron) F (*gene.TranscriptFeature)
//                                     T (*gene.CodingTranscript) N (*gene.NonCodingTranscript);
//                                     loop = `-` or k: the top node's location is node k
//        step  = i,j,k,p              a query: i,j,k node indices, or n (nil) or f (a foreign feature)
//                O<k>=<o> | M<k>=<s>  between two queries: node k (0-based) gets another orientation / start
//                                     (pointer kinds only: o x G T N F; x has no orientation)
//   cv <p>                            OneToZero / ZeroToOne and both compositions
//   gf <off> <op>*                    history of Gene.SetFeatures; op = F=<feats>,
//        feat  = loc:start:end:tag    loc 1 = the gene, 2 = another gene, 0 = nil

import (
	"fmt"
	"go/ast"
	"go/parser"
	"go/token"
	"math"
	"path/filepath"
	"runtime"
	"sort"
	"strconv"
	"strings"

	"github.com/biogo/biogo/feat"
	"github.com/biogo/biogo/feat/gene"
	"github.com/biogo/biogo/feat/genome"

	"verif/harness/hx"
)

// ---- custom features --------------------------------------------------------------------

type c20Node struct {
	start, end int
	loc        feat.Feature
	tag        int
}

func (n *c20Node) Start() int             { return n.start }
func (n *c20Node) End() int               { return n.end }
func (n *c20Node) Len() int               { return n.end - n.start }
func (n *c20Node) Name() string           { return "n" }
func (n *c20Node) Description() string    { return "custom" }
func (n *c20Node) Location() feat.Feature { return n.loc }

type c20Ori struct {
	c20Node
	orient feat.Orientation
}

func (n *c20Ori) Orientation() feat.Orientation { return n.orient }

// ---- error / panic kinds ----------------------------------------------------------------

func c20Err(err error) string {
	if err == nil {
		return "ok"
	}
	switch err.Error() {
	case "exons overlap":
		return "overlap"
	case "exons location differ":
		return "locdiffer"
	case "new exons locations differ from old ones":
		return "newlocdiffer"
	case "exon location is not the transcript":
		return "nottranscript"
	case "no exon with a zero start":
		return "nozerostart"
	case "transcript location does not match the gene":
		return "featloc"
	case "no transcript with 0 start on gene":
		return "nozerofeat"
	}
	return "other:" + hx.Hex([]byte(err.Error()))
}

func c20Panic(r interface{}) string {
	if _, ok := r.(runtime.Error); ok {
		if strings.Contains(fmt.Sprint(r), "nil pointer") {
			return "P:nil"
		}
		return "P:rt:" + hx.Hex([]byte(fmt.Sprint(r)))
	}
	switch fmt.Sprint(r) {
	case "feat: feature chain too long":
		return "P:toolong"
	case "feat: 1-based index == 0":
		return "P:zeroindex"
	case "gene: invalid base orientation for transcript":
		return "P:badorient"
	}
	return "P:other:" + hx.Hex([]byte(fmt.Sprint(r)))
}

// c20Try runs f and renders a panic as a token.
func c20Try(f func() string) (out string) {
	defer func() {
		if r := recover(); r != nil {
			out = c20Panic(r)
		}
	}()
	return f()
}

// ---- exons on the wire ------------------------------------------------------------------

type c20Exon struct{ loc, start, length, tag int }

func c20ParseExons(tok string) []c20Exon {
	if tok == "-" || tok == "" {
		return nil
	}
	var out []c20Exon
	for _, e := range strings.Split(tok, ";") {
		p := strings.Split(e, ":")
		if len(p) != 4 {
			panic("c20: bad exon " + e)
		}
		out = append(out, c20Exon{hx.Atoi(p[0]), hx.Atoi(p[1]), hx.Atoi(p[2]), hx.Atoi(p[3])})
	}
	return out
}

func c20ShowExons(es []c20Exon) string {
	if len(es) == 0 {
		return "-"
	}
	parts := make([]string, len(es))
	for i, e := range es {
		parts[i] = fmt.Sprintf("%d:%d:%d:%d", e.loc, e.start, e.length, e.tag)
	}
	return strings.Join(parts, ";")
}

func c20Desc(tag int) string {
	if tag == 0 {
		return ""
	}
	return strconv.Itoa(tag)
}

func c20Tag(desc string) int {
	if desc == "" {
		return 0
	}
	n, err := strconv.Atoi(desc)
	if err != nil {
		return -1
	}
	return n
}

// c20Snap renders real exons; pool[i] is the transcript with identity i (pool[0] = nil).
func c20Snap(es []gene.Exon, pool []gene.Transcript) string {
	if len(es) == 0 {
		return "-"
	}
	parts := make([]string, len(es))
	for i, e := range es {
		id := -1
		for k, t := range pool {
			if e.Transcript == t {
				id = k
				break
			}
		}
		parts[i] = fmt.Sprintf("%d:%d:%d:%d", id, e.Offset, e.Length, c20Tag(e.Desc))
	}
	return strings.Join(parts, ";")
}

func c20Real(es []c20Exon, pool []gene.Transcript) []gene.Exon {
	out := make([]gene.Exon, len(es))
	for i, e := range es {
		out[i] = gene.Exon{Transcript: pool[e.loc], Offset: e.start, Length: e.length, Desc: c20Desc(e.tag)}
	}
	return out
}

func c20SameArray(a, b gene.Exons) bool {
	if cap(a) == 0 || cap(b) == 0 {
		return false
	}
	return &a[:cap(a)][cap(a)-1] == &b[:cap(b)][cap(b)-1]
}

// ---- xs: history on a bare Exons value ---------------------------------------------------

func c20ExecXS(f []string) string {
	pool := []gene.Transcript{nil, &gene.NonCodingTranscript{ID: "t1"}, &gene.NonCodingTranscript{ID: "t2"}, &gene.CodingTranscript{ID: "t3"}}
	n, c := hx.Atoi(f[1]), hx.Atoi(f[2])
	init := c20Real(c20ParseExons(f[3]), pool)
	if len(init) != n || c < n {
		panic("c20: xs header")
	}
	s := make(gene.Exons, n, c)
	copy(s, init)
	var held gene.Exons
	var obs []string
	for _, op := range f[4:] {
		kind, arg := op[:1], op[2:]
		switch kind {
		case "a", "d":
			args := c20Real(c20ParseExons(arg), pool)
			before := c20Snap(s[:cap(s)], pool)
			heldBefore := c20Snap(held, pool)
			r, err := s.Add(args...)
			after := c20Snap(s[:cap(s)], pool)
			obs = append(obs, fmt.Sprintf("%s %d %s %s %s %d %s %s %s %s", c20Err(err), len(s), before, after,
				c20Snap(r, pool), cap(r), c20Snap(args, pool), hx.B(c20SameArray(r, s)), heldBefore, c20Snap(held, pool)))
			if kind == "a" {
				s = r
			}
		case "h":
			held = s
			obs = append(obs, fmt.Sprintf("h %d", len(held)))
		case "t":
			j := hx.Atoi(arg)
			if j > cap(s) {
				j = cap(s)
			}
			s = s[:j]
			obs = append(obs, fmt.Sprintf("t %d %d", len(s), cap(s)))
		case "o":
			j := hx.Atoi(arg)
			if j > len(s) {
				j = len(s)
			}
			s = s[j:]
			obs = append(obs, fmt.Sprintf("o %d %d", len(s), cap(s)))
		default:
			panic("c20: bad xs op " + op)
		}
	}
	return strings.Join(obs, " | ")
}

// ---- chains -----------------------------------------------------------------------------

type c20ChainNode struct {
	kind   byte
	start  int
	orient string // "x" or -1|0|1
	f      feat.Feature
}

func c20Orient(s string) feat.Orientation {
	if s == "x" {
		return feat.NotOriented
	}
	return feat.Orientation(hx.Atoi(s))
}

func c20ParseChain(tok string) []*c20ChainNode {
	if tok == "-" || tok == "" {
		return nil
	}
	var out []*c20ChainNode
	for _, e := range strings.Split(tok, ";") {
		p := strings.Split(e, ":")
		if len(p) != 3 || len(p[0]) != 1 {
			panic("c20: bad node " + e)
		}
		out = append(out, &c20ChainNode{kind: p[0][0], start: hx.Atoi(p[1]), orient: p[2]})
	}
	return out
}

// c20Build creates the features top-down; returns the bottom feature (nil for an empty chain).
func c20Build(nodes []*c20ChainNode) feat.Feature {
	var up feat.Feature
	for i := len(nodes) - 1; i >= 0; i-- {
		nd := nodes[i]
		tr, _ := up.(gene.Transcript)
		if (nd.kind == 'E' || nd.kind == 'I' || nd.kind == 'F') && up != nil && tr == nil {
			panic("c20: exon/intron/transcript feature must be located on a transcript")
		}
		switch nd.kind {
		case 'o':
			nd.f = &c20Ori{c20Node: c20Node{start: nd.start, end: nd.start + 100, loc: up}, orient: c20Orient(nd.orient)}
		case 'x':
			nd.f = &c20Node{start: nd.start, end: nd.start + 100, loc: up}
		case 'C':
			if up != nil || nd.start != 0 {
				panic("c20: chromosome must be the last node and start at 0")
			}
			nd.f = &genome.Chromosome{Chr: "chr", Length: 1 << 30}
		case 'G':
			nd.f = &gene.Gene{ID: "g", Chrom: up, Offset: nd.start, Orient: c20Orient(nd.orient)}
		case 'T':
			nd.f = &gene.CodingTranscript{ID: "t", Loc: up, Offset: nd.start, Orient: c20Orient(nd.orient)}
		case 'N':
			nd.f = &gene.NonCodingTranscript{ID: "n", Loc: up, Offset: nd.start, Orient: c20Orient(nd.orient)}
		case 'E':
			nd.f = gene.Exon{Transcript: tr, Offset: nd.start, Length: 10}
		case 'I':
			nd.f = gene.Intron{Transcript: tr, Offset: nd.start, Length: 10}
		case 'F':
			nd.f = &gene.TranscriptFeature{Transcript: tr, Offset: nd.start, Length: 5, Orient: c20Orient(nd.orient)}
		default:
			panic("c20: bad node kind")
		}
		up = nd.f
	}
	return up
}

func c20SetLoc(f, loc feat.Feature) {
	switch v := f.(type) {
	case *c20Ori:
		v.loc = loc
	case *c20Node:
		v.loc = loc
	case *gene.Gene:
		v.Chrom = loc
	case *gene.CodingTranscript:
		v.Loc = loc
	case *gene.NonCodingTranscript:
		v.Loc = loc
	default:
		panic("c20: loop from a node whose location cannot be set")
	}
}

// c20SetOrient assigns the orientation of a feature of a chain, as a caller would between two queries.
func c20SetOrient(f feat.Feature, o feat.Orientation) {
	switch v := f.(type) {
	case *c20Ori:
		v.orient = o
	case *gene.Gene:
		v.Orient = o
	case *gene.CodingTranscript:
		v.Orient = o
	case *gene.NonCodingTranscript:
		v.Orient = o
	case *gene.TranscriptFeature:
		v.Orient = o
	default:
		panic("c20: orientation of a node that has none, or of a value-typed node")
	}
}

// c20SetStart moves a feature of a chain.
func c20SetStart(f feat.Feature, s int) {
	switch v := f.(type) {
	case *c20Ori:
		v.start, v.end = s, s+100
	case *c20Node:
		v.start, v.end = s, s+100
	case *gene.Gene:
		v.Offset = s
	case *gene.CodingTranscript:
		v.Offset = s
	case *gene.NonCodingTranscript:
		v.Offset = s
	case *gene.TranscriptFeature:
		v.Offset = s
	default:
		panic("c20: start of a chromosome or of a value-typed node")
	}
}

// c20ChainOp carries out `O<k>=<o>` / `M<k>=<s>` on chain[k] and reads the assigned value back.
func c20ChainOp(op string, chain []feat.Feature) string {
	eq := strings.IndexByte(op, '=')
	k, val := hx.Atoi(op[1:eq]), hx.Atoi(op[eq+1:])
	if k < 0 || k >= len(chain) {
		panic("c20: chain op beyond the chain " + op)
	}
	if op[0] == 'O' {
		if val < -1 || val > 1 {
			panic("c20: bad orientation " + op)
		}
		c20SetOrient(chain[k], feat.Orientation(val))
		return fmt.Sprintf("O %d", chain[k].(feat.Orienter).Orientation())
	}
	c20SetStart(chain[k], val)
	return fmt.Sprintf("M %d", chain[k].Start())
}

func c20ExecCH(f []string) string {
	nodes := c20ParseChain(f[1])
	c20Build(nodes)
	if f[2] != "-" {
		c20SetLoc(nodes[len(nodes)-1].f, nodes[hx.Atoi(f[2])].f)
	}
	foreign := &c20Ori{c20Node: c20Node{start: 7, end: 107}, orient: feat.Forward}
	pick := func(tok string) feat.Feature {
		switch tok {
		case "n":
			return nil
		case "f":
			return foreign
		}
		return nodes[hx.Atoi(tok)].f
	}
	idOf := func(r feat.Feature) string {
		if r == nil {
			return "0"
		}
		if r == feat.Feature(foreign) {
			return "f"
		}
		for m, nd := range nodes {
			if nd.f == r {
				return strconv.Itoa(m + 1)
			}
		}
		return "?"
	}
	bp := func(x feat.Feature, p int) string {
		return c20Try(func() string {
			pos, ref := feat.BasePositionOf(x, p)
			return fmt.Sprintf("%d,%s", pos, idOf(ref))
		})
	}
	pw := func(x, ref feat.Feature, p int) (string, int, bool) {
		var q int
		var ok bool
		s := c20Try(func() string {
			q, ok = feat.PositionWithin(x, ref, p)
			return fmt.Sprintf("%d,%s", q, hx.B(ok))
		})
		return s, q, !strings.HasPrefix(s, "P:")
	}
	bo := func(x feat.Feature) string {
		return c20Try(func() string {
			o, ref := feat.BaseOrientationOf(x)
			return fmt.Sprintf("%d,%s", o, idOf(ref))
		})
	}
	ow := func(x, ref feat.Feature) string {
		return c20Try(func() string { return strconv.Itoa(int(feat.OrientationWithin(x, ref))) })
	}
	var obs []string
	for _, q := range f[3:] {
		if strings.IndexByte(q, '=') > 0 && (q[0] == 'O' || q[0] == 'M') {
			chain := make([]feat.Feature, len(nodes))
			for m, nd := range nodes {
				chain[m] = nd.f
			}
			obs = append(obs, c20ChainOp(q, chain))
			continue
		}
		p := strings.Split(q, ",")
		if len(p) != 4 {
			panic("c20: bad query " + q)
		}
		fi, fj, fk, pos := pick(p[0]), pick(p[1]), pick(p[2]), hx.Atoi(p[3])
		out := []string{bp(fi, pos)}
		s1, q1, done := pw(fi, fj, pos)
		out = append(out, s1)
		if done {
			s2, _, _ := pw(fj, fk, q1)
			out = append(out, s2, bp(fj, q1))
		} else {
			out = append(out, "-", "-")
		}
		s3, _, _ := pw(fi, fk, pos)
		out = append(out, s3, bo(fi))
		if fi != nil {
			up := c20Try(func() string {
				if fi.Location() == nil {
					return "-"
				}
				return bo(fi.Location())
			})
			out = append(out, up)
		} else {
			out = append(out, "-")
		}
		out = append(out, ow(fi, fj), ow(fj, fk), ow(fi, fk))
		obs = append(obs, strings.Join(out, " "))
	}
	return strings.Join(obs, " | ")
}

// ---- tx: history on a transcript ----------------------------------------------------------

func c20Iv(f func() feat.Feature) string {
	return c20Try(func() string {
		x := f()
		return fmt.Sprintf("%d:%d", x.Start(), x.End())
	})
}

func c20ExecTX(f []string) string {
	hdr := strings.Split(f[2], ",")
	off, ori, cdsS, cdsE := hx.Atoi(hdr[0]), c20Orient(hdr[1]), hx.Atoi(hdr[2]), hx.Atoi(hdr[3])
	locNodes := c20ParseChain(f[3])
	loc := c20Build(locNodes)
	var t gene.Transcript
	var ct *gene.CodingTranscript
	if f[1] == "c" {
		ct = &gene.CodingTranscript{ID: "t", Loc: loc, Offset: off, Orient: ori, CDSstart: cdsS, CDSend: cdsE}
		t = ct
	} else {
		t = &gene.NonCodingTranscript{ID: "t", Loc: loc, Offset: off, Orient: ori}
	}
	u := &gene.NonCodingTranscript{ID: "u", Loc: loc}
	v := &gene.CodingTranscript{ID: "v"}
	pool := []gene.Transcript{nil, t, u, v}
	chain := []feat.Feature{t}
	for _, nd := range locNodes {
		chain = append(chain, nd.f)
	}
	var obs []string
	for _, op := range f[4:] {
		eq := strings.IndexByte(op, '=')
		if eq < 1 {
			panic("c20: bad tx op " + op)
		}
		kind, arg := op[:1], op[eq+1:]
		if kind != "Z" && kind != "O" && kind != "M" && eq != 1 {
			panic("c20: bad tx op " + op)
		}
		var args []gene.Exon
		if kind != "O" && kind != "M" {
			args = c20Real(c20ParseExons(arg), pool)
		}
		var err error
		switch kind {
		case "O", "M":
			c20ChainOp(op, chain)
		case "Z":
			j := 0
			if eq > 1 {
				j = hx.Atoi(op[1:eq])
			}
			ex := t.Exons()
			if j > cap(ex) {
				j = cap(ex)
			}
			_, err = ex[:j].Add(args...)
		case "S":
			err = t.SetExons(args...)
		case "A":
			_, err = t.Exons().Add(args...)
		case "R":
			var r gene.Exons
			r, err = t.Exons().Add(args...)
			if err == nil {
				err = t.SetExons(r...)
			}
		default:
			panic("c20: bad tx op " + op)
		}
		var ins []string
		for _, in := range t.Introns() {
			id := -1
			for k, p := range pool {
				if in.Transcript == p {
					id = k
				}
			}
			ins = append(ins, fmt.Sprintf("%d:%d:%d", id, in.Offset, in.Length))
		}
		intr := "-"
		if len(ins) > 0 {
			intr = strings.Join(ins, ";")
		}
		o := fmt.Sprintf("%s %s %s %d,%d,%d", c20Err(err), c20Snap(t.Exons(), pool), intr, t.Start(), t.End(), t.Len())
		if ct != nil {
			sh := c20Try(func() string {
				return fmt.Sprintf("%d,%d,%d,%d", ct.UTR5start(), ct.UTR5end(), ct.UTR3start(), ct.UTR3end())
			})
			o += " " + c20Iv(ct.UTR5) + " " + c20Iv(ct.CDS) + " " + c20Iv(ct.UTR3) + " " + sh
		} else {
			o += " - - - -"
		}
		obs = append(obs, o)
	}
	return strings.Join(obs, " | ")
}

// ---- gf: history of Gene.SetFeatures -------------------------------------------------------

func c20ExecGF(f []string) string {
	g := &gene.Gene{ID: "g", Offset: hx.Atoi(f[1]), Orient: feat.Forward}
	g2 := &gene.Gene{ID: "g2"}
	locs := []feat.Feature{nil, g, g2}
	var obs []string
	for _, op := range f[2:] {
		if !strings.HasPrefix(op, "F=") {
			panic("c20: bad gf op " + op)
		}
		var fs []feat.Feature
		for _, e := range c20ParseExons(op[2:]) { // loc:start:end:tag
			fs = append(fs, &c20Node{start: e.start, end: e.length, loc: locs[e.loc], tag: e.tag})
		}
		err := g.SetFeatures(fs...)
		var tags []int
		for _, x := range g.Features() {
			tags = append(tags, x.(*c20Node).tag)
		}
		obs = append(obs, fmt.Sprintf("%s %d,%d,%d %s", c20Err(err), g.Start(), g.End(), g.Len(), hx.Ints(tags)))
	}
	return strings.Join(obs, " | ")
}

// ---- cv -----------------------------------------------------------------------------------

func c20ExecCV(f []string) string {
	p := hx.Atoi(f[1])
	a := c20Try(func() string { return strconv.Itoa(feat.OneToZero(p)) })
	b := strconv.Itoa(feat.ZeroToOne(p))
	c := c20Try(func() string { return strconv.Itoa(feat.OneToZero(feat.ZeroToOne(p))) })
	d := c20Try(func() string { return strconv.Itoa(feat.ZeroToOne(feat.OneToZero(p))) })
	return a + " " + b + " " + c + " " + d
}

func c20Exec(input string) string {
	f := hx.Fields(input)
	switch f[0] {
	case "xs":
		return c20ExecXS(f)
	case "tx":
		return c20ExecTX(f)
	case "ch":
		return c20ExecCH(f)
	case "gf":
		return c20ExecGF(f)
	case "cv":
		return c20ExecCV(f)
	}
	panic("c20: bad input " + input)
}

// ---- generators ---------------------------------------------------------------------------

type c20Tags struct{ next int }

func (t *c20Tags) tag() int { t.next++; return t.next }

// c20Layout cuts [0, L) into m exons with introns between them (possibly empty introns:
// abutting exons), on location loc. L is returned (the end of the last exon).
func c20Layout(g *hx.Gen, tg *c20Tags, loc, m, from int) ([]c20Exon, int) {
	var es []c20Exon
	pos := from
	for i := 0; i < m; i++ {
		if i > 0 && !g.Chance(0.25) { // intron (else abutting)
			pos += g.Pick(1, 1, 2, 7, 50)
		}
		l := g.Pick(1, 1, 2, 3, 10, 100)
		es = append(es, c20Exon{loc, pos, l, tg.tag()})
		pos += l
	}
	return es, pos
}

func c20Shuffle(g *hx.Gen, es []c20Exon) {
	g.Shuffle(len(es), func(i, j int) { es[i], es[j] = es[j], es[i] })
}

// c20NewExons proposes exons to add to a set that currently holds cur (any order).
// total is the number of exons the sorted slice would have; beyond 12 elements sort.Sort is
// not stable, so equal starts are only produced for small sets.
func c20NewExons(g *hx.Gen, tg *c20Tags, cur []c20Exon, loc int) []c20Exon {
	m := g.Pick(0, 1, 1, 1, 2, 2, 3, 5)
	end := 0
	for _, e := range cur {
		if e.start+e.length > end {
			end = e.start + e.length
		}
	}
	var out []c20Exon
	used := map[int]bool{}
	for _, e := range cur {
		used[e.start] = true
	}
	small := len(cur)+m <= 12
	mode := g.Intn(10)
	for i := 0; i < m; i++ {
		var e c20Exon
		switch {
		case mode <= 2 || len(cur) == 0: // after the end: accepted (abutting or with an intron)
			st := end + g.Pick(0, 0, 1, 5)
			l := g.Pick(1, 2, 10)
			e = c20Exon{loc, st, l, tg.tag()}
			end = st + l
		case mode == 3: // overlapping an existing exon by one base or more
			c := cur[g.Intn(len(cur))]
			st := c.start + c.length - g.Pick(1, 1, 2, c.length+1)
			e = c20Exon{loc, st, g.Pick(1, 2, 30), tg.tag()}
		case mode == 4: // abutting an existing exon on its right: accepted iff the gap is free
			c := cur[g.Intn(len(cur))]
			e = c20Exon{loc, c.start + c.length, g.Pick(0, 1, 1, 2), tg.tag()}
		case mode == 5: // inside an intron / before the first exon
			c := cur[g.Intn(len(cur))]
			e = c20Exon{loc, c.start - g.Pick(1, 2, 3, 8), g.Pick(1, 1, 2, 3), tg.tag()}
		case mode == 6: // foreign location, beyond the end (only the location is wrong)
			st := end + g.Pick(0, 1, 5)
			e = c20Exon{g.Pick(0, 2, 3), st, 3, tg.tag()}
			end = st + 3
		case mode == 7: // zero-length or negative-length exon somewhere
			e = c20Exon{loc, g.Range(-2, end+3), g.Pick(0, 0, 0, -1, -3), tg.tag()}
		case mode == 8: // same start as an existing exon
			c := cur[g.Intn(len(cur))]
			e = c20Exon{loc, c.start, g.Pick(0, 1, c.length), tg.tag()}
		default: // anything
			e = c20Exon{g.Pick(loc, loc, loc, 0, 2), g.Range(-3, end+10), g.Pick(0, 1, 2, 5, 20), tg.tag()}
		}
		if !small && used[e.start] {
			continue
		}
		used[e.start] = true
		out = append(out, e)
	}
	if g.Chance(0.5) {
		c20Shuffle(g, out)
	}
	return out
}

// c20FreshArgs proposes arguments for an Add on an empty receiver (nothing to be consistent
// with): a layout of m exons that is accepted, or rejected because two of them overlap or lie on
// different locations. Equal starts are produced only for at most 12 exons.
func c20FreshArgs(g *hx.Gen, tg *c20Tags, loc, m int) []c20Exon {
	if m < 1 {
		m = 1
	}
	es, _ := c20Layout(g, tg, g.Pick(loc, loc, loc, loc, 2, 0), m, g.Pick(0, 0, 0, 3, 4))
	if m >= 2 {
		switch g.Intn(6) {
		case 0, 1, 2: // two exons overlap
			j := 1 + g.Intn(m-1)
			if m <= 12 && g.Chance(0.2) {
				es[j].start = es[j-1].start
			} else {
				es[j-1].length++
				es[j].start = es[j-1].start + es[j-1].length - 1
			}
		case 3: // one exon on another location
			j := g.Intn(m)
			es[j].loc = (es[j].loc + g.Pick(1, 2)) % 4
		}
	}
	if g.Chance(0.5) {
		c20Shuffle(g, es)
	}
	return es
}

// c20DupStart reports whether two exons of the list have the same start.
func c20DupStart(es []c20Exon) bool {
	seen := map[int]bool{}
	for _, e := range es {
		if seen[e.start] {
			return true
		}
		seen[e.start] = true
	}
	return false
}

// c20Accepts mirrors the acceptance rule well enough to let the generator follow the state.
func c20Accepts(cur, add []c20Exon) ([]c20Exon, bool) {
	all := append(append([]c20Exon{}, cur...), add...)
	sort.SliceStable(all, func(i, j int) bool { return all[i].start < all[j].start })
	for i := 1; i < len(all); i++ {
		if all[i].start < all[i-1].start+all[i-1].length || all[i].loc != all[i-1].loc {
			return cur, false
		}
	}
	return all, true
}

func c20GenXS(g *hx.Gen) string {
	tg := &c20Tags{}
	n := g.Pick(0, 0, 1, 2, 3, 5, 8, 11, 14)
	k := g.Pick(0, 0, 1, 1, 2, 4, 8)
	loc := g.Pick(1, 1, 1, 1, 2, 0)
	init, _ := c20Layout(g, tg, loc, n, g.Pick(0, 0, 0, 3))
	if g.Chance(0.1) && n > 1 && n <= 12 { // unchecked literal: out of order or overlapping
		c20Shuffle(g, init)
	}
	toks := []string{"xs", strconv.Itoa(n), strconv.Itoa(n + k), c20ShowExons(init)}
	// cells[:length] is the receiver, cells[length:] its spare capacity (as it is when Add
	// does not write to the receiver)
	cells := append(append([]c20Exon{}, init...), make([]c20Exon, k)...)
	length := n
	nops := g.Pick(1, 1, 2, 3, 4, 6)
	for i := 0; i < nops; i++ {
		switch r := g.Intn(12); {
		case r == 0:
			j := g.Intn(len(cells) + 3)
			if g.Chance(0.4) {
				j = 0 // the reset idiom s = s[:0]: an empty receiver whose spare capacity is live data
			}
			toks = append(toks, fmt.Sprintf("t=%d", j))
			if j > len(cells) {
				j = len(cells)
			}
			length = j
		case r == 1 && length > 0:
			j := g.Intn(length + 1)
			toks = append(toks, fmt.Sprintf("o=%d", j))
			cells = cells[j:]
			length -= j
		case r == 2 && length > 0:
			// held = s, then (mostly) the reset idiom s = s[:0]: the receiver of the following Adds
			// is empty and its spare capacity is what held reads
			toks = append(toks, "h=-")
			if g.Chance(0.8) {
				j := 0
				if g.Chance(0.25) {
					j = g.Intn(length)
				}
				toks = append(toks, fmt.Sprintf("t=%d", j))
				length = j
			}
		default:
			cur := cells[:length]
			add := c20NewExons(g, tg, cur, loc)
			if len(cur) == 0 && len(cells) > 0 && g.Chance(0.7) {
				add = c20FreshArgs(g, tg, loc, g.Pick(1, 1, 2, 3, len(cells), len(cells)+1))
			}
			if len(cur)+len(add) > 12 && c20DupStart(cur) {
				// sort.Sort is not stable beyond 12 elements: the outcome could depend on
				// the order it leaves equal starts in
				return strings.Join(toks, " ")
			}
			op := "a"
			if g.Chance(0.2) {
				op = "d"
			}
			toks = append(toks, op+"="+c20ShowExons(add))
			if nc, ok := c20Accepts(cur, add); ok && op == "a" {
				cells = nc
				length = len(nc)
			}
		}
	}
	return strings.Join(toks, " ")
}

func c20GenChainNodes(g *hx.Gen, depth int, realKinds bool) []string {
	// built top-down so that kind constraints (exon on transcript …) can be respected
	kinds := make([]byte, depth)
	for i := depth - 1; i >= 0; i-- {
		var up byte
		if i < depth-1 {
			up = kinds[i+1]
		}
		opts := []byte{'o', 'o', 'o', 'x'}
		if realKinds {
			opts = append(opts, 'G', 'T', 'N', 'o')
			if i == depth-1 {
				opts = append(opts, 'C', 'C')
			}
			if up == 'T' || up == 'N' {
				opts = append(opts, 'E', 'E', 'I', 'F', 'F')
			}
			if up == 'G' {
				opts = append(opts, 'T', 'T', 'N')
			}
			if i == depth-1 {
				opts = append(opts, 'E', 'F') // nil transcript
			}
		}
		kinds[i] = opts[g.Intn(len(opts))]
	}
	out := make([]string, depth)
	for i, k := range kinds {
		start := g.Pick(0, 0, 1, 5, 10, 100, -3, 12345)
		ori := strconv.Itoa(g.Pick(1, 1, 1, -1, -1, -1, 0))
		switch k {
		case 'x':
			ori = "x"
		case 'C':
			ori, start = "x", 0
		case 'E', 'I':
			ori = "1"
		}
		out[i] = fmt.Sprintf("%c:%d:%s", k, start, ori)
	}
	return out
}

func c20GenCH(g *hx.Gen, deep bool) string {
	var depth int
	if deep {
		depth = g.Pick(998, 999, 1000, 1001, 1002, 1003)
	} else {
		depth = g.Pick(1, 2, 2, 3, 3, 4, 4, 5, 6, 8)
	}
	nodes := c20GenChainNodes(g, depth, !deep || g.Chance(0.3))
	if deep && g.Chance(0.7) { // a long run of orientable features
		for i := range nodes {
			if strings.HasPrefix(nodes[i], "x:") || strings.HasSuffix(nodes[i], ":0") {
				if g.Chance(0.995) {
					p := strings.Split(nodes[i], ":")
					if p[0] == "x" {
						p[0] = "o"
					}
					if p[0] != "C" {
						nodes[i] = p[0] + ":" + p[1] + ":" + strconv.Itoa(g.Pick(1, -1))
					}
				}
			}
		}
	}
	loop := "-"
	top := nodes[depth-1][0]
	if g.Chance(0.12) && strings.IndexByte("oxTNG", top) >= 0 {
		loop = strconv.Itoa(g.Intn(depth))
	}
	toks := []string{"ch", strings.Join(nodes, ";"), loop}
	nq := g.Pick(1, 2, 3, 4)
	if deep {
		nq = g.Pick(1, 2)
	}
	for q := 0; q < nq; q++ {
		idx := func() string {
			switch g.Intn(14) {
			case 0:
				return "n"
			case 1:
				return "f"
			}
			if deep && g.Chance(0.5) {
				return strconv.Itoa(g.Pick(0, 1, 2, depth-3, depth-2, depth-1) % depth)
			}
			return strconv.Itoa(g.Intn(depth))
		}
		i, j, k := idx(), idx(), idx()
		if g.Chance(0.75) { // nested: i below j below k
			var xs []int
			for len(xs) < 3 {
				if deep && g.Chance(0.6) {
					xs = append(xs, g.Pick(0, 1, 2, depth-3, depth-2, depth-1)%depth)
				} else {
					xs = append(xs, g.Intn(depth))
				}
			}
			sort.Ints(xs)
			i, j, k = strconv.Itoa(xs[0]), strconv.Itoa(xs[1]), strconv.Itoa(xs[2])
		}
		q := fmt.Sprintf("%s,%s,%s,%d", i, j, k, g.Pick(0, 0, 1, 7, 100, -5))
		toks = append(toks, q)
		// between two queries a node of the chain is moved or gets another orientation — mostly one
		// above the queried feature — and the same query is asked again: the answers must follow
		if g.Chance(0.3) {
			lo := 0
			if n, err := strconv.Atoi(i); err == nil && g.Chance(0.7) {
				lo = n
			}
			for tries := 0; tries < 4; tries++ {
				m := lo + g.Intn(depth-lo)
				if deep && g.Chance(0.5) {
					m = g.Pick(0, 1, 2, depth-3, depth-2, depth-1) % depth
				}
				p := strings.Split(nodes[m], ":")
				kind := p[0][0]
				if strings.IndexByte("oxGTNF", kind) < 0 {
					continue
				}
				if kind != 'x' && g.Chance(0.5) {
					o := g.Pick(-1, 0, 1)
					if cur := hx.Atoi(p[2]); cur != 0 && g.Chance(0.6) {
						o = -cur
					}
					p[2] = strconv.Itoa(o)
					toks = append(toks, fmt.Sprintf("O%d=%d", m, o))
				} else {
					st := g.Pick(0, 1, 5, 10, 100, -3, 12345, 777)
					p[1] = strconv.Itoa(st)
					toks = append(toks, fmt.Sprintf("M%d=%d", m, st))
				}
				nodes[m] = strings.Join(p, ":")
				if g.Chance(0.85) {
					toks = append(toks, q)
				}
				break
			}
		}
	}
	return strings.Join(toks, " ")
}

func c20GenLocChain(g *hx.Gen) string {
	d := g.Pick(0, 1, 1, 2, 2, 3, 4)
	if d == 0 {
		return "-"
	}
	nodes := make([]string, d)
	for i := 0; i < d; i++ {
		kind := g.Pick('o', 'o', 'x', 'G', 'G')
		if i == 0 && g.Chance(0.5) {
			kind = 'G'
		}
		if i == d-1 && g.Chance(0.4) {
			nodes[i] = "C:0:x"
			continue
		}
		ori := strconv.Itoa(g.Pick(1, 1, -1, -1, -1, 0))
		if kind == 'x' {
			ori = "x"
		}
		nodes[i] = fmt.Sprintf("%c:%d:%s", kind, g.Pick(0, 5, 100, 1000), ori)
	}
	return strings.Join(nodes, ";")
}

func c20GenTX(g *hx.Gen) string {
	tg := &c20Tags{}
	kind := "c"
	if g.Chance(0.25) {
		kind = "n"
	}
	// 12, 16, 19, 20, 22 and 24 exons get spare capacity from the runtime's size classes on the pinned tree
	m := g.Pick(1, 1, 2, 3, 4, 5, 7, 9, 11, 12, 12, 13, 16, 16, 19, 20, 22, 24)
	first, L := c20Layout(g, tg, 1, m, 0)
	cdsS, cdsE := g.Range(0, L), 0
	cdsE = g.Range(cdsS, L)
	switch g.Intn(12) {
	case 0:
		cdsS, cdsE = 0, L
	case 1:
		cdsE = cdsS
	case 2: // outside the transcript / inverted: the code does not validate CDS bounds
		cdsS, cdsE = g.Range(-3, L+3), g.Range(-3, L+3)
	}
	tOri := g.Pick(1, 1, 1, -1, -1, -1, 0)
	hdr := fmt.Sprintf("%d,%d,%d,%d", g.Pick(0, 0, 20, 500), tOri, cdsS, cdsE)
	locChain := c20GenLocChain(g)
	toks := []string{"tx", kind, hdr, locChain}
	cur := []c20Exon{}
	emit := func(op string, es []c20Exon) { toks = append(toks, op+"="+c20ShowExons(es)) }
	// the chain as the generator follows it: level 0 is the transcript, level k the k-th node of the
	// location chain; oris[k] is the current orientation of an Orienter at level k
	oris := map[int]int{0: tOri}
	var above []int // levels above the transcript whose orientation can be assigned
	for k, nd := range c20ParseChain(locChain) {
		if nd.kind == 'o' || nd.kind == 'G' {
			oris[k+1] = hx.Atoi(nd.orient)
			above = append(above, k+1)
		}
	}
	// an orientation change between two operations, mostly above the transcript (Gene.Orient, a
	// contig's orientation) and mostly a flip, at any nesting level, to any of the three values
	emitO := func() {
		k := 0
		if len(above) > 0 && g.Chance(0.8) {
			k = above[g.Intn(len(above))]
		}
		o := g.Pick(-1, 0, 1)
		if oris[k] != 0 && g.Chance(0.65) {
			o = -oris[k]
		} else if oris[k] == 0 && g.Chance(0.7) {
			o = g.Pick(-1, 1)
		}
		oris[k] = o
		toks = append(toks, fmt.Sprintf("O%d=%d", k, o))
	}
	// the transcript (mostly) or one of its locations is moved
	emitM := func() {
		k := 0
		if n := len(c20ParseChain(locChain)); n > 0 && g.Chance(0.3) {
			k = 1 + g.Intn(n)
			if strings.HasPrefix(strings.Split(locChain, ";")[k-1], "C:") {
				k = 0
			}
		}
		toks = append(toks, fmt.Sprintf("M%d=%d", k, g.Pick(0, 1, 7, 20, 500, 1000, -4)))
	}
	// Add on a re-slice of t.Exons(), result dropped: t.Exons()[:0] (the reset idiom) mostly, with
	// argument lists that are accepted and rejected, that fit the capacity and exceed it
	emitZ := func() {
		sorted := append([]c20Exon{}, cur...)
		sort.SliceStable(sorted, func(i, j int) bool { return sorted[i].start < sorted[j].start })
		j := 0
		if g.Chance(0.35) {
			j = g.Intn(len(sorted) + 2)
		}
		var add []c20Exon
		if j == 0 || len(sorted) == 0 {
			add = c20FreshArgs(g, tg, 1, g.Pick(1, 1, 2, 3, len(sorted), len(sorted), len(sorted)+1, len(sorted)+2))
		} else {
			k := j
			if k > len(sorted) {
				k = len(sorted)
			}
			add = c20NewExons(g, tg, sorted[:k], 1)
			if k+len(add) > 12 && c20DupStart(sorted[:k]) {
				return
			}
		}
		if j == 0 {
			emit("Z", add)
		} else {
			emit(fmt.Sprintf("Z%d", j), add)
		}
	}
	if g.Chance(0.05) { // before the first query
		emitO()
	}
	if g.Chance(0.1) { // before any SetExons: t.Exons() is nil
		emitZ()
	}
	if g.Chance(0.92) {
		es := append([]c20Exon{}, first...)
		if g.Chance(0.5) {
			c20Shuffle(g, es)
		}
		emit("S", es)
		cur = first
	}
	if g.Chance(0.3) {
		emitZ()
	}
	if len(toks) > 4 && g.Chance(0.3) { // right after the first query
		emitO()
		if g.Chance(0.3) {
			emitO()
		}
	}
	nops := g.Pick(0, 1, 1, 2, 3, 5)
	for i := 0; i < nops; i++ {
		switch g.Intn(15) {
		case 11, 12, 13:
			emitO()
			if g.Chance(0.3) {
				emitO()
			}
		case 14:
			emitM()
		case 8, 9, 10:
			emitZ()
			if g.Chance(0.3) {
				emitZ()
			}
		case 0: // a fresh valid layout
			es, _ := c20Layout(g, tg, 1, g.Pick(1, 2, 3, 6, 12, 16), 0)
			if g.Chance(0.5) {
				c20Shuffle(g, es)
			}
			emit("S", es)
			cur = es
		case 1: // layout that does not start at zero, or on the wrong transcript, or nil
			switch g.Intn(4) {
			case 0:
				es, _ := c20Layout(g, tg, 1, g.Pick(1, 2, 5), g.Pick(1, 3, -2))
				emit("S", es)
			case 1:
				es, _ := c20Layout(g, tg, g.Pick(0, 2), g.Pick(1, 2, 5), 0)
				emit("S", es)
			case 2:
				es, _ := c20Layout(g, tg, 1, g.Pick(2, 3, 5), 0)
				es[g.Intn(len(es))].loc = g.Pick(0, 2)
				emit("S", es)
			default:
				emit("S", nil)
			}
		case 2, 3, 4: // Add through t.Exons(), result dropped
			add := c20NewExons(g, tg, cur, 1)
			if len(cur)+len(add) > 12 && c20DupStart(cur) {
				continue
			}
			emit("A", add)
		case 5, 6:
			add := c20NewExons(g, tg, cur, 1)
			if len(cur)+len(add) > 12 && c20DupStart(cur) {
				continue
			}
			emit("R", add)
			if nc, ok := c20Accepts(cur, add); ok && len(nc) > 0 && nc[0].start == 0 && nc[0].loc == 1 {
				cur = nc
			}
		default: // SetExons with an overlapping layout
			es, _ := c20Layout(g, tg, 1, g.Pick(2, 3, 6), 0)
			j := 1 + g.Intn(len(es)-1)
			es[j].start = es[j-1].start + es[j-1].length - 1
			if g.Chance(0.5) {
				c20Shuffle(g, es)
			}
			emit("S", es)
		}
	}
	return strings.Join(toks, " ")
}

func c20GenGF(g *hx.Gen) string {
	tg := &c20Tags{}
	toks := []string{"gf", strconv.Itoa(g.Pick(0, 100, 5000))}
	for i, n := 0, g.Pick(1, 2, 3, 4); i < n; i++ {
		m := g.Pick(0, 1, 2, 3, 5)
		var fs []c20Exon
		zero := g.Chance(0.7)
		for j := 0; j < m; j++ {
			st := g.Pick(0, 1, 5, 20, -2)
			if j == 0 && zero {
				st = 0
			} else if zero && st < 0 && g.Chance(0.8) {
				st = 3
			}
			loc := 1
			if g.Chance(0.1) {
				loc = g.Pick(0, 2)
			}
			fs = append(fs, c20Exon{loc, st, st + g.Pick(0, 1, 10, 300, -4), tg.tag()})
		}
		c20Shuffle(g, fs)
		toks = append(toks, "F="+c20ShowExons(fs))
	}
	return strings.Join(toks, " ")
}

func c20Gen(g *hx.Gen) {
	// conversions: a window around zero, exhaustively
	for p := -40; p <= 40; p++ {
		g.Casef("cv %d", p)
	}
	for _, p := range []int{1 << 31, -(1 << 31), 1<<62 - 1, -(1 << 62)} {
		g.Casef("cv %d", p)
	}
	// the ends of int: ZeroToOne(MaxInt64) wraps around to MinInt64
	for d := 0; d <= 3; d++ {
		g.Casef("cv %d", math.MaxInt64-d)
		g.Casef("cv %d", math.MinInt64+d)
	}
	n := g.Scale(40000, 1000000)
	deepEvery := g.Scale(150, 400)
	for k := 0; k < n && !g.Done(); k++ {
		if k%deepEvery == deepEvery-1 {
			g.Case(c20GenCH(g, true))
			continue
		}
		switch r := g.Intn(20); {
		case r < 7:
			g.Case(c20GenXS(g))
		case r < 13:
			g.Case(c20GenTX(g))
		case r < 18:
			g.Case(c20GenCH(g, false))
		case r < 19:
			g.Case(c20GenGF(g))
		default:
			switch g.Intn(4) {
			case 0:
				g.Casef("cv %d", math.MaxInt64-g.Intn(1000))
			case 1:
				g.Casef("cv %d", math.MinInt64+g.Intn(1000))
			default:
				g.Casef("cv %d", g.Range(-1000000, 1000000))
			}
		}
	}
}

// c20Shrink drops one operation / query, or one element of an exon list.
func c20Shrink(input string) []string {
	f := hx.Fields(input)
	var hdr int
	switch f[0] {
	case "xs", "tx":
		hdr = 4
	case "ch":
		hdr = 3
	case "gf":
		hdr = 2
	default:
		return nil
	}
	var out []string
	for i := len(f) - 1; i >= hdr; i-- {
		g := append(append([]string{}, f[:i]...), f[i+1:]...)
		if len(g) > hdr || f[0] == "xs" {
			out = append(out, strings.Join(g, " "))
		}
	}
	for i := hdr; i < len(f); i++ {
		eq := strings.IndexByte(f[i], '=')
		if eq < 0 {
			continue
		}
		items := strings.Split(f[i][eq+1:], ";")
		if len(items) < 2 {
			continue
		}
		// an exon list that is inconsistent in itself (two of its exons overlap or lie on different
		// locations) is rejected whatever the receiver holds; do not shrink it into a consistent one,
		// which would turn a failing rejected call into a different, accepted one
		selfRejected := false
		if f[0] == "xs" || f[0] == "tx" {
			_, ok := c20Accepts(nil, c20ParseExons(strings.Join(items, ";")))
			selfRejected = !ok
		}
		for j := range items {
			rest := append(append([]string{}, items[:j]...), items[j+1:]...)
			if selfRejected {
				if _, ok := c20Accepts(nil, c20ParseExons(strings.Join(rest, ";"))); ok {
					continue
				}
			}
			g := append([]string{}, f...)
			g[i] = f[i][:eq+1] + strings.Join(rest, ";")
			out = append(out, strings.Join(g, " "))
		}
	}
	return out
}

// ---- regenerated facts --------------------------------------------------------------------
//
// GeneFacts.lean: the bounds of the `for n := 0; n < K; n++` loops of the four position /
// orientation functions (the model's fuel), and the calls that `Exons.Add` makes before its
// checking loop (the model's make / copy / append / sort.Sort sequence).

func c20CallName(e ast.Expr) string {
	c, ok := e.(*ast.CallExpr)
	if !ok {
		return ""
	}
	switch f := c.Fun.(type) {
	case *ast.Ident:
		return f.Name
	case *ast.SelectorExpr:
		if x, ok := f.X.(*ast.Ident); ok {
			return x.Name + "." + f.Sel.Name
		}
	}
	return "?"
}

func geneFacts(repo string) (string, error) {
	fset := token.NewFileSet()
	ff, err := parser.ParseFile(fset, filepath.Join(repo, "feat", "feature.go"), nil, 0)
	if err != nil {
		return "", err
	}
	var bounds []string
	// package-level integer constants with a literal value (a bound may be written `n < maxDepth`)
	consts := map[string]*ast.BasicLit{}
	for _, d := range ff.Decls {
		gd, ok := d.(*ast.GenDecl)
		if !ok || gd.Tok != token.CONST {
			continue
		}
		for _, sp := range gd.Specs {
			vs, ok := sp.(*ast.ValueSpec)
			if !ok || len(vs.Names) != len(vs.Values) {
				continue
			}
			for i, nm := range vs.Names {
				if bl, ok := vs.Values[i].(*ast.BasicLit); ok && bl.Kind == token.INT {
					consts[nm.Name] = bl
				}
			}
		}
	}
	want := map[string]bool{"BasePositionOf": true, "PositionWithin": true, "BaseOrientationOf": true, "OrientationWithin": true}
	for _, d := range ff.Decls {
		fd, ok := d.(*ast.FuncDecl)
		if !ok || fd.Recv != nil || !want[fd.Name.Name] || fd.Body == nil {
			continue
		}
		var ferr error
		ast.Inspect(fd.Body, func(n ast.Node) bool {
			fs, ok := n.(*ast.ForStmt)
			if !ok {
				return true
			}
			be, ok := fs.Cond.(*ast.BinaryExpr)
			lit, ok2 := (ast.Expr)(nil), false
			if ok {
				lit, ok2 = be.Y, true
			}
			bl, ok3 := lit.(*ast.BasicLit)
			if id, isID := lit.(*ast.Ident); isID && consts[id.Name] != nil {
				bl, ok3 = consts[id.Name], true
			}
			if !ok || !ok2 || !ok3 || be.Op != token.LSS || bl.Kind != token.INT {
				ferr = fmt.Errorf("%s: unrecognised loop condition at %s", fd.Name.Name, fset.Position(fs.Pos()))
				return true
			}
			bounds = append(bounds, fmt.Sprintf("(%q, %s)", fd.Name.Name, bl.Value))
			return true
		})
		if ferr != nil {
			return "", ferr
		}
	}
	gf, err := parser.ParseFile(fset, filepath.Join(repo, "feat", "gene", "gene.go"), nil, 0)
	if err != nil {
		return "", err
	}
	var prologue []string
	found := false
	for _, d := range gf.Decls {
		fd, ok := d.(*ast.FuncDecl)
		if !ok || fd.Name.Name != "Add" || fd.Recv == nil || fd.Body == nil {
			continue
		}
		found = true
	stmts:
		for _, st := range fd.Body.List {
			switch v := st.(type) {
			case *ast.AssignStmt:
				for _, r := range v.Rhs {
					if n := c20CallName(r); n != "" {
						prologue = append(prologue, strconv.Quote(n))
					}
				}
			case *ast.ExprStmt:
				if n := c20CallName(v.X); n != "" {
					prologue = append(prologue, strconv.Quote(n))
				}
			default:
				break stmts
			}
		}
	}
	if !found {
		return "", fmt.Errorf("Exons.Add not found in feat/gene/gene.go")
	}
	return fmt.Sprintf("namespace Biogo.Generated\n\n/-- bounds of the depth loops of feat/feature.go, in source order -/\ndef featLoopBounds : List (String × Nat) := [%s]\n\n/-- the calls Exons.Add makes before its checking loop, in source order -/\ndef addPrologue : List String := [%s]\n\nend Biogo.Generated\n",
		strings.Join(bounds, ", "), strings.Join(prologue, ", ")), nil
}

func init() {
	hx.Register(&hx.Prop{ID: "C20", Gen: c20Gen, Exec: c20Exec, Shrink: c20Shrink})
	hx.RegisterFacts(hx.FactGen{File: "GeneFacts.lean", Gen: geneFacts})
}
