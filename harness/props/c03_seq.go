package props

// C03, part "seq" — the FASTA and FASTQ readers are total.
//
// Inputs
//   fa3 <hex bytes>              fasta.Reader over the bytes, template *linear.Seq
//   fq3 <tmpl> <hex bytes>       fastq.Reader; tmpl = s (*linear.Seq) or the numeric
//                                alphabet.Encoding of a *linear.QSeq template (-1 … 5)
//
// Observation: the call history (see seqio_util.go) of Read until io.EOF, with a budget of
// (number of input lines + 4) calls; a panic or a hang is caught by the framework.
//
// The generator is aimed at the guards, not at valid files: arbitrary bytes over an alphabet
// rich in structural bytes (prefixes, blanks, UTF-8 space encodings, CR/LF), valid files of
// C01 under byte and line mutations, truncation at every byte offset, and an enumerated family
// of four-line FASTQ records whose parts are independently broken.

import (
	"bytes"
	"fmt"

	"github.com/biogo/biogo/alphabet"
	"github.com/biogo/biogo/io/seqio/fasta"

	"verif/harness/hx"
)

func init() {
	hx.Register(&hx.Prop{ID: "C03", Part: "seq", Ops: []string{"fa3", "fq3", "fap3"}, Gen: c03seqGen, Exec: c03seqExec, Shrink: c03seqShrink})
}

func c03seqExec(input string) string {
	f := hx.Fields(input)
	switch f[0] {
	case "fa3":
		return sioReadFasta(hx.Unhex(f[1]), "s", alphabet.DNA)
	case "fap3": // the FASTA reader with user-set IDPrefix / SeqPrefix
		return sioReadFastaPfx(hx.Unhex(f[3]), "s", alphabet.DNA, hx.Unhex(f[1]), hx.Unhex(f[2]))
	case "fq3":
		if f[1] == "s" {
			return sioReadFastq(hx.Unhex(f[2]), "s", alphabet.DNA, alphabet.Sanger)
		}
		return sioReadFastq(hx.Unhex(f[2]), "q", alphabet.DNA, sioEnc(f[1]))
	}
	panic("c03seq: bad input " + input)
}

// bytes that matter to the readers
var c03seqPool = []byte(">>>@@@+++\n\n\n\n\r \t\v\f acgtnACGT-*IIII!~#;x0\x85\xa0\xc2\xe2\x80\x81\x9f\xe1\x9a\xe3\xa8\xaf\xff\x00")

func c03seqByte(g *hx.Gen) byte {
	if g.Chance(0.08) {
		return byte(g.Intn(256))
	}
	return c03seqPool[g.Intn(len(c03seqPool))]
}

func c03seqTmpl(g *hx.Gen) string {
	return []string{"s", "-1", "0", "0", "1", "2", "3", "4", "5"}[g.Intn(9)]
}

func c03seqEmit(g *hx.Gen, fastqStyle bool, tmpl string, data []byte) {
	if fastqStyle {
		g.Casef("fq3 %s %s", tmpl, hx.Hex(data))
	} else {
		g.Casef("fa3 %s", hx.Hex(data))
	}
}

// a small valid file of either format and the template that reads it
func c03seqValid(g *hx.Gen, small bool) (data []byte, fastqStyle bool, tmpl string) {
	alpha := sioAlphabets[g.Intn(len(sioAlphabets))]
	width := g.Pick(1, 2, 3, 5, 60)
	if !small {
		width = sioWidth(g)
	}
	fastqStyle = g.Chance(0.6)
	typ := "q"
	enc := sioPhredEncodings[g.Intn(len(sioPhredEncodings))]
	if g.Chance(0.3) {
		typ = "s"
	}
	rs := sioRecords(g, alpha, width, fastqStyle && typ == "q", enc, 3)
	if small {
		for i := range rs {
			if len(rs[i].letters) > 12 {
				k := g.Range(0, 12)
				rs[i].letters = rs[i].letters[:k]
				if len(rs[i].quals) > k {
					rs[i].quals = rs[i].quals[:k]
				}
			}
			if len(rs[i].name) > 6 {
				rs[i].name = rs[i].name[:6]
			}
			if len(rs[i].desc) > 8 {
				rs[i].desc = "d"
			}
		}
	}
	if fastqStyle {
		tmpl = "s"
		if typ == "q" {
			tmpl = fmt.Sprint(int(enc))
		}
		return sioWriteFastq(rs, typ, alpha, enc, g.Chance(0.5)), true, tmpl
	}
	return sioWriteFasta(rs, "s", alpha, width), false, ""
}

func c03seqMutateBytes(g *hx.Gen, data []byte) []byte {
	d := append([]byte(nil), data...)
	for k := g.Pick(1, 1, 2, 3); k > 0; k-- {
		switch g.Intn(4) {
		case 0: // replace
			if len(d) > 0 {
				d[g.Intn(len(d))] = c03seqByte(g)
			}
		case 1: // insert
			i := g.Intn(len(d) + 1)
			d = append(d[:i], append([]byte{c03seqByte(g)}, d[i:]...)...)
		case 2: // delete
			if len(d) > 0 {
				i := g.Intn(len(d))
				d = append(d[:i], d[i+1:]...)
			}
		case 3: // delete a run
			if len(d) > 1 {
				i := g.Intn(len(d))
				j := i + g.Range(1, 6)
				if j > len(d) {
					j = len(d)
				}
				d = append(d[:i], d[j:]...)
			}
		}
	}
	return d
}

func c03seqMutateLines(g *hx.Gen, data []byte) []byte {
	lines := bytes.SplitAfter(data, []byte{'\n'})
	if len(lines) > 0 && len(lines[len(lines)-1]) == 0 {
		lines = lines[:len(lines)-1]
	}
	if len(lines) == 0 {
		return data
	}
	i := g.Intn(len(lines))
	switch g.Intn(7) {
	case 0: // delete a line
		lines = append(lines[:i:i], lines[i+1:]...)
	case 1: // duplicate a line
		lines = append(lines[:i+1:i+1], lines[i:]...)
	case 2: // swap with the next line
		if i+1 < len(lines) {
			lines[i], lines[i+1] = lines[i+1], lines[i]
		}
	case 3: // empty a line
		lines[i] = []byte("\n")
	case 4: // join with the next line
		lines[i] = bytes.TrimRight(lines[i], "\n")
	case 5: // blank line before
		lines = append(lines[:i:i], append([][]byte{[]byte(sioPickS(g, "\n", " \n", "\r\n", "\t \n"))}, lines[i:]...)...)
	case 6: // split a line in two
		if len(lines[i]) > 2 {
			k := g.Range(1, len(lines[i])-1)
			a, b := lines[i][:k:k], lines[i][k:]
			lines[i] = append(a, '\n')
			lines = append(lines[:i+1:i+1], append([][]byte{b}, lines[i+1:]...)...)
		}
	}
	return bytes.Join(lines, nil)
}

// one FASTQ record whose four parts are chosen independently (and may be broken)
func c03seqFastqFamily(g *hx.Gen) []byte {
	var b bytes.Buffer
	for rec := g.Pick(1, 1, 2); rec > 0; rec-- {
		name := sioPickS(g, "id", "r1", "", "@x", "+y", "a")
		desc := sioPickS(g, "", "", " d", " two words", "\tt")
		nl := func() {
			b.WriteString(sioPickS(g, "\n", "\n", "\n", "\r\n", " \n", "\n\n", "\n \t\n"))
		}
		if !g.Chance(0.05) {
			fmt.Fprintf(&b, "%s%s%s", sioPickS(g, "@", "@", "@", "@", ">", ""), name, desc)
			nl()
		}
		l := g.Pick(0, 1, 2, 3, 4, 8)
		s := g.Letters("acgtnACGT", l)
		if l > 0 && g.Chance(0.1) {
			s[g.Intn(l)] = byte(g.Pick(' ', '\t', 0x85, 0xa0, '+', '@'))
		}
		if !g.Chance(0.05) {
			b.Write(s)
			nl()
		}
		if g.Chance(0.08) { // a second sequence line (multi-line FASTQ is not supported)
			b.Write(g.Letters("acgt", g.Range(1, 4)))
			nl()
		}
		if !g.Chance(0.05) {
			switch g.Intn(6) {
			case 0, 1, 2:
				b.WriteString("+")
			case 3:
				fmt.Fprintf(&b, "+%s%s", name, desc)
			case 4:
				fmt.Fprintf(&b, "+%sx", name)
			case 5:
				b.WriteString(sioPickS(g, "+ ", "-", "++", "+\t"))
			}
			nl()
		}
		ql := l + g.Pick(0, 0, 0, 0, 1, -1, 2, -2, 5)
		if ql < 0 {
			ql = 0
		}
		q := g.Letters("!+@I~5#", ql)
		if ql > 1 && g.Chance(0.1) {
			q[g.Range(1, ql-1)] = byte(g.Pick(' ', '\t', 0x85, 0xa0))
		}
		if !g.Chance(0.05) {
			b.Write(q)
			if rec > 1 || !g.Chance(0.3) {
				nl()
			}
		}
	}
	return b.Bytes()
}

func c03seqGen(g *hx.Gen) {
	// truncation of valid files at every byte offset
	for f := g.Scale(20, 200); f > 0 && !g.Done(); f-- {
		data, fq, tmpl := c03seqValid(g, true)
		if g.Chance(0.3) {
			data = bytes.ReplaceAll(data, []byte("\n"), []byte("\r\n"))
		}
		for off := 0; off <= len(data) && !g.Done(); off++ {
			c03seqEmit(g, fq, tmpl, data[:off])
		}
	}
	// the FASTA reader with user-set prefixes: files written with the same prefixes (as
	// gff.Writer does for inline sequences), their mutations, and lines made of prefix pieces
	for k := g.Scale(1500, 30000); k > 0 && !g.Done(); k-- {
		pp := sioPrefixPairs[g.Intn(len(sioPrefixPairs))]
		var d []byte
		if g.Chance(0.6) {
			alpha := sioAlphabets[g.Intn(len(sioAlphabets))]
			width := g.Pick(1, 2, 3, 5, 60)
			var buf bytes.Buffer
			w := fasta.NewWriter(&buf, width)
			w.IDPrefix, w.SeqPrefix = []byte(pp[0]), []byte(pp[1])
			for _, r := range sioRecords(g, alpha, width, false, alphabet.Sanger, 3) {
				if len(r.letters) > 200 {
					r.letters = r.letters[:200]
				}
				w.Write(sioSeq("s", r, builtinByName(alpha), alphabet.Sanger))
			}
			d = buf.Bytes()
			if g.Chance(0.5) {
				d = c03seqMutateBytes(g, d)
			}
		} else {
			for i := g.Pick(1, 2, 3, 4); i > 0; i-- {
				d = append(d, sioPickS(g, pp[0], pp[1], pp[0]+pp[1], "", " ", pp[0][:len(pp[0])/2])...)
				for j := g.Pick(0, 1, 3, 8); j > 0; j-- {
					d = append(d, c03seqByte(g))
				}
				d = append(d, sioPickS(g, "\n", "\r\n", "")...)
			}
		}
		g.Casef("fap3 %s %s %s", hx.Hex([]byte(pp[0])), hx.Hex([]byte(pp[1])), hx.Hex(d))
	}
	n := g.Scale(30000, 400000)
	for k := 0; k < n && !g.Done(); k++ {
		switch g.Intn(10) {
		case 0, 1, 2: // arbitrary bytes
			l := g.Pick(0, 1, 2, 3, 5, 8, 13, 21, 34, 60)
			d := make([]byte, l)
			for i := range d {
				d[i] = c03seqByte(g)
			}
			c03seqEmit(g, g.Chance(0.5), c03seqTmpl(g), d)
		case 3, 4: // valid file, byte mutations
			data, fq, tmpl := c03seqValid(g, g.Chance(0.9))
			c03seqEmit(g, fq, tmpl, c03seqMutateBytes(g, data))
		case 5, 6: // valid file, line mutations
			data, fq, tmpl := c03seqValid(g, g.Chance(0.9))
			d := c03seqMutateLines(g, data)
			if g.Chance(0.3) {
				d = c03seqMutateLines(g, d)
			}
			c03seqEmit(g, fq, tmpl, d)
		case 7, 8: // the FASTQ family
			c03seqEmit(g, true, c03seqTmpl(g), c03seqFastqFamily(g))
		case 9: // a valid file read by the other reader, or garbage with very long lines
			if g.Chance(0.5) {
				data, fq, _ := c03seqValid(g, true)
				c03seqEmit(g, !fq, c03seqTmpl(g), data)
			} else if g.Chance(0.6) {
				// an unterminated last line of exactly k*4096 bytes (ReadLine delivers it as
				// isPrefix fragments and then io.EOF), after 0..3 lines that put the reader
				// in each of its states; sometimes a CR sits on a fragment boundary
				var b bytes.Buffer
				fq := g.Chance(0.6)
				pre := [][]string{{}, {">h"}, {">h", "acgt"}, {"acgt"}}
				if fq {
					pre = [][]string{{}, {"@h"}, {"@h", "acgt"}, {"@h", "acgt", "+"}, {"@h", "+"}, {"@h", "acgt", "+h"}}
				}
				for _, l := range pre[g.Intn(len(pre))] {
					b.WriteString(l)
					b.WriteString(sioPickS(g, "\n", "\r\n"))
				}
				n := g.Pick(4096, 4096, 8192, 12288) + g.Pick(0, 0, 0, 1, -1, 4095)
				last := g.Letters("acgtIII!", n)
				last[0] = sioPickS(g, ">", "@", "+", "a", "I", " ")[0]
				if g.Chance(0.3) {
					last[g.Pick(4095, 4094, 4096, n-1)%n] = '\r'
				}
				if g.Chance(0.2) {
					last[n-1] = byte(g.Pick(' ', '\t', '\r', 0xa0))
				}
				b.Write(last)
				c03seqEmit(g, fq, c03seqTmpl(g), b.Bytes())
			} else {
				var b bytes.Buffer
				for i := g.Pick(1, 2, 3); i > 0; i-- {
					b.WriteString(sioPickS(g, ">", "@", "", "+", " "))
					b.Write(g.Letters("acgt >@+\t", g.Pick(4090, 4095, 4096, 4097, 8192, 12000, 20000)))
					b.WriteString(sioPickS(g, "\n", "\r\n", ""))
				}
				c03seqEmit(g, g.Chance(0.5), c03seqTmpl(g), b.Bytes())
			}
		}
	}
}

func c03seqShrink(input string) []string {
	f := hx.Fields(input)
	data := hx.Unhex(f[len(f)-1])
	head := input[:len(input)-len(f[len(f)-1])]
	var out []string
	for _, w := range []int{len(data) / 2, 8, 3, 1} {
		if w < 1 || w > len(data) {
			continue
		}
		for i := 0; i+w <= len(data); i += w {
			d := append(append([]byte(nil), data[:i]...), data[i+w:]...)
			out = append(out, head+hx.Hex(d))
			if len(out) > 400 {
				return out
			}
		}
	}
	return out
}
