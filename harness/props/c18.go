package props

// C18 — quality scores: encode, decode, error probabilities, Phred/Solexa conversion.
//
// Inputs (encodings are given by their integer code, None = -1 … Illumina1_9 = 5)
//   pe <enc> <q>      Qphred(q).Encode(enc), decoded again; the same through quality.Phred
//                     (QEncode/QDecode/String) and linear.QSeq (QEncode)
//   se <enc> <qs>     Qsolexa(qs).Encode(enc), decoded again; the same through quality.Solexa
//   d  <enc> <byte>   enc.DecodeToQphred(byte) enc.DecodeToQsolexa(byte)
//   pq <q>            Qphred(q): ProbE bits, Ephred(ProbE), Qsolexa(), ProbE of q-1, EAt of the containers
//   sq <qs>           Qsolexa(qs): ProbE bits, Esolexa(ProbE), Qphred(), ProbE of qs-1, EAt of the container
//   ep <bits>         Ephred(p) for the float64 with these bits (hex); the same through SetE/At
//   es <bits>         Esolexa(p); the same through quality.Solexa SetE/At
//
// Facts: Biogo/Generated/QualTables.lean — the four lookup tables read through the exported
// methods (float64 entries as bits and as exact dyadic rationals m/2^k), the encoding codes,
// and the case structure and literals of the four switch statements taken from the AST of
// alphabet/letters.go.

import (
	"fmt"
	"go/ast"
	"go/parser"
	"go/token"
	"math"
	"path/filepath"
	"strconv"
	"strings"

	"github.com/biogo/biogo/alphabet"
	"github.com/biogo/biogo/seq/linear"
	"github.com/biogo/biogo/seq/quality"

	"verif/harness/hx"
)

var qualEncodings = []struct {
	name string
	e    alphabet.Encoding
}{
	{"None", alphabet.None},
	{"Sanger", alphabet.Sanger},
	{"Solexa", alphabet.Solexa},
	{"Illumina1_3", alphabet.Illumina1_3},
	{"Illumina1_5", alphabet.Illumina1_5},
	{"Illumina1_8", alphabet.Illumina1_8},
	{"Illumina1_9", alphabet.Illumina1_9},
}

func fbits(p float64) string { return fmt.Sprintf("%016x", math.Float64bits(p)) }

func parseBits(s string) float64 {
	u, err := strconv.ParseUint(s, 16, 64)
	if err != nil {
		panic("c18: bad bits " + s)
	}
	return math.Float64frombits(u)
}

func c18Exec(input string) string {
	f := hx.Fields(input)
	switch f[0] {
	case "pe":
		e := alphabet.Encoding(hx.Atoi(f[1]))
		q := alphabet.Qphred(hx.Atoi(f[2]))
		b := q.Encode(e)
		d := e.DecodeToQphred(b)
		ph := quality.NewPhred("q", []alphabet.Qphred{q}, e)
		b2 := ph.QEncode(0)
		d2 := ph.QDecode(b2)
		str := []byte(ph.String())
		b3 := -1
		if len(str) == 1 {
			b3 = int(str[0])
		}
		qsq := linear.NewQSeq("s", []alphabet.QLetter{{L: 'a', Q: q}}, alphabet.DNA, e)
		b4 := qsq.QEncode(0)
		return fmt.Sprintf("%d %d %d %d %d %d", b, d, b2, d2, b3, b4)
	case "se":
		e := alphabet.Encoding(hx.Atoi(f[1]))
		qs := alphabet.Qsolexa(hx.Atoi(f[2]))
		b := qs.Encode(e)
		d := e.DecodeToQsolexa(b)
		so := quality.NewSolexa("q", []alphabet.Qsolexa{qs}, e)
		b2 := so.QEncode(0)
		d2 := so.QDecode(b2)
		str := []byte(so.String())
		b3 := -1
		if len(str) == 1 {
			b3 = int(str[0])
		}
		return fmt.Sprintf("%d %d %d %d %d", b, int8(d), b2, int8(d2), b3)
	case "d":
		e := alphabet.Encoding(hx.Atoi(f[1]))
		b := byte(hx.Atoi(f[2]))
		return fmt.Sprintf("%d %d", e.DecodeToQphred(b), int8(e.DecodeToQsolexa(b)))
	case "pq":
		q := alphabet.Qphred(hx.Atoi(f[1]))
		p := q.ProbE()
		prev := "-"
		if q > 0 {
			prev = fbits((q - 1).ProbE())
		}
		ph := quality.NewPhred("q", []alphabet.Qphred{q}, alphabet.Sanger)
		qsq := linear.NewQSeq("s", []alphabet.QLetter{{L: 'a', Q: q}}, alphabet.DNA, alphabet.Sanger)
		return fmt.Sprintf("%s %d %d %s %s %s", fbits(p), alphabet.Ephred(p), int8(q.Qsolexa()), prev, fbits(ph.EAt(0)), fbits(qsq.EAt(0)))
	case "sq":
		qs := alphabet.Qsolexa(hx.Atoi(f[1]))
		p := qs.ProbE()
		prev := "-"
		if qs > -128 {
			prev = fbits((qs - 1).ProbE())
		}
		so := quality.NewSolexa("q", []alphabet.Qsolexa{qs}, alphabet.Solexa)
		return fmt.Sprintf("%s %d %d %s %s", fbits(p), int8(alphabet.Esolexa(p)), qs.Qphred(), prev, fbits(so.EAt(0)))
	case "ep":
		p := parseBits(f[1])
		ph := quality.NewPhred("q", []alphabet.Qphred{7}, alphabet.Sanger)
		ph.SetE(0, p)
		qsq := linear.NewQSeq("s", []alphabet.QLetter{{L: 'a', Q: 7}}, alphabet.DNA, alphabet.Sanger)
		qsq.SetE(0, p)
		return fmt.Sprintf("%d %d %d", alphabet.Ephred(p), ph.At(0), qsq.At(0).Q)
	case "es":
		p := parseBits(f[1])
		so := quality.NewSolexa("q", []alphabet.Qsolexa{7}, alphabet.Solexa)
		so.SetE(0, p)
		return fmt.Sprintf("%d %d", int8(alphabet.Esolexa(p)), int8(so.At(0)))
	}
	panic("c18: bad input " + input)
}

// nudge moves p by n units in the last place.
func nudge(p float64, n int) float64 {
	for ; n > 0; n-- {
		p = math.Nextafter(p, 2)
	}
	for ; n < 0; n++ {
		p = math.Nextafter(p, -1)
	}
	return p
}

func c18Gen(g *hx.Gen) {
	// exhaustive part: every score and every byte under every encoding, every table entry
	for _, en := range qualEncodings {
		for q := 0; q < 256; q++ {
			g.Casef("pe %d %d", en.e, q)
		}
		for qs := -128; qs < 128; qs++ {
			g.Casef("se %d %d", en.e, qs)
		}
		for b := 0; b < 256; b++ {
			g.Casef("d %d %d", en.e, b)
		}
	}
	for q := 0; q < 256; q++ {
		g.Casef("pq %d", q)
	}
	for qs := -128; qs < 128; qs++ {
		g.Casef("sq %d", qs)
	}
	prob := func(p float64) {
		if p < 0 || p > 1 { // the property is about probabilities
			return
		}
		g.Casef("ep %s", fbits(p))
		g.Casef("es %s", fbits(p))
	}
	// the special values
	prob(0)
	prob(1)
	prob(0.5)
	prob(math.NaN())
	prob(math.SmallestNonzeroFloat64)
	prob(nudge(1, -1))
	// every table probability and its neighbours
	for q := 0; q < 254; q++ {
		p := alphabet.Qphred(q).ProbE()
		for _, n := range []int{0, 1, -1, 3, -3} {
			prob(nudge(p, n))
		}
	}
	for qs := -127; qs < 127; qs++ {
		p := alphabet.Qsolexa(qs).ProbE()
		for _, n := range []int{0, 1, -1, 3, -3} {
			prob(nudge(p, n))
		}
	}
	// rounding boundaries: Q = q ± 1/2, approached from both sides, just outside the
	// tolerance band (2^-40) and inside it
	for h := -1; h <= 520; h++ {
		x := math.Pow(10, -(float64(h)+0.5)/10) // Phred boundary between h and h+1
		r := math.Pow(10, -(float64(h-260)+0.5)/10)
		for _, p := range []float64{x, r / (1 + r)} {
			for _, rel := range []float64{0, 1e-15, -1e-15, 1e-13, -1e-13, 2e-12, -2e-12, 1e-9, -1e-9, 1e-3, -1e-3} {
				prob(p * (1 + rel))
			}
		}
	}
	// dense sample of (0,1)
	n := g.Scale(6000, 500000)
	for k := 0; k < n && !g.Done(); k++ {
		var p float64
		switch g.Intn(8) {
		case 0:
			p = g.Float64()
		case 1, 2: // log-uniform over the whole Phred range and beyond
			p = math.Pow(10, -g.Float64()*30)
		case 3: // near one (negative Solexa scores)
			p = 1 - math.Pow(10, -g.Float64()*16)
		case 4: // uniform over bit patterns of (0,1)
			p = math.Float64frombits(uint64(g.Int63n(int64(math.Float64bits(1)))))
		case 5: // the realistic range, Q 0 … 45
			p = math.Pow(10, -g.Float64()*4.5)
		case 6: // close to a Phred rounding boundary
			h := g.Intn(300)
			p = math.Pow(10, -(float64(h)+0.5)/10) * (1 + (g.Float64()-0.5)*math.Pow(10, -float64(g.Intn(14))))
		case 7: // close to a Solexa rounding boundary
			h := g.Intn(300) - 150
			r := math.Pow(10, -(float64(h)+0.5)/10) * (1 + (g.Float64()-0.5)*math.Pow(10, -float64(g.Intn(14))))
			p = r / (1 + r)
		}
		if p > 0 && p < 1 {
			if g.Intn(2) == 0 {
				g.Casef("ep %s", fbits(p))
			} else {
				g.Casef("es %s", fbits(p))
			}
		}
	}
}

// ---- regenerated facts -------------------------------------------------------------------

// dyadic writes a float64 as bits and, when finite and non-negative, as m / 2^k.
func dyadic(p float64) (string, error) {
	bits := math.Float64bits(p)
	if math.IsNaN(p) {
		return fmt.Sprintf("(%d, .nan)", bits), nil
	}
	if p < 0 || math.IsInf(p, 0) {
		return "", fmt.Errorf("table entry %v is not a probability", p)
	}
	if p == 0 {
		return fmt.Sprintf("(%d, .val 0 0)", bits), nil
	}
	ex := int(bits >> 52 & 0x7ff)
	m := bits & (1<<52 - 1)
	k := 1074
	if ex != 0 {
		m |= 1 << 52
		k = 1075 - ex
	}
	// cross-check with math.Frexp: p = frac·2^exp, frac in [1/2,1)
	frac, e2 := math.Frexp(p)
	if ex != 0 && (uint64(frac*(1<<53)) != m || 53-e2 != k) {
		return "", fmt.Errorf("Frexp and Float64bits disagree on %v", p)
	}
	if k < 0 {
		return "", fmt.Errorf("table entry %v is not a probability", p)
	}
	return fmt.Sprintf("(%d, .val %d %d)", bits, m, k), nil
}

func litInt(e ast.Expr) (int, bool) {
	switch v := e.(type) {
	case *ast.ParenExpr:
		return litInt(v.X)
	case *ast.UnaryExpr:
		if v.Op == token.SUB {
			n, ok := litInt(v.X)
			return -n, ok
		}
	case *ast.BasicLit:
		switch v.Kind {
		case token.INT:
			n, err := strconv.ParseInt(v.Value, 0, 64)
			return int(n), err == nil
		case token.CHAR:
			r, _, _, err := strconv.UnquoteChar(v.Value[1:len(v.Value)-1], '\'')
			return int(r), err == nil
		}
	}
	return 0, false
}

func identName(e ast.Expr) string {
	if id, ok := e.(*ast.Ident); ok {
		return id.Name
	}
	return ""
}

type qualExtract struct {
	fset  *token.FileSet
	codes map[string]int
}

func (x *qualExtract) errf(n ast.Node, format string, a ...interface{}) error {
	return fmt.Errorf("%s: %s", x.fset.Position(n.Pos()), fmt.Sprintf(format, a...))
}

func (x *qualExtract) caseCodes(cc *ast.CaseClause) (string, error) {
	var parts []string
	for _, e := range cc.List {
		c, ok := x.codes[identName(e)]
		if !ok {
			return "", x.errf(e, "case expression is not a known Encoding constant")
		}
		parts = append(parts, strconv.Itoa(c))
	}
	return "[" + strings.Join(parts, ", ") + "]", nil
}

// encodeFacts reads `func (recv T) Encode(e Encoding) (q byte)`:
//
//	if recv == A { return B } …                       the special scores
//	switch e { case …: q = byte(<recv | recv.Conv() | local>) ; if <x> <= T { q += O } ; [if q < F { q = F }] ; [return q]
//	           case None: return C }
func (x *qualExtract) encodeFacts(fd *ast.FuncDecl) (special, clauses string, err error) {
	recv := fd.Recv.List[0].Names[0].Name
	var sp, cl []string
	for _, st := range fd.Body.List {
		switch s := st.(type) {
		case *ast.IfStmt:
			be, ok := s.Cond.(*ast.BinaryExpr)
			if !ok || be.Op != token.EQL || identName(be.X) != recv || len(s.Body.List) != 1 || s.Init != nil || s.Else != nil {
				return "", "", x.errf(s, "unrecognised statement before the switch in %s.Encode", recv)
			}
			a, ok1 := litInt(be.Y)
			rs, ok2 := s.Body.List[0].(*ast.ReturnStmt)
			if !ok1 || !ok2 || len(rs.Results) != 1 {
				return "", "", x.errf(s, "unrecognised special-score statement in %s.Encode", recv)
			}
			b, ok3 := litInt(rs.Results[0])
			if !ok3 {
				return "", "", x.errf(s, "unrecognised special-score byte in %s.Encode", recv)
			}
			sp = append(sp, fmt.Sprintf("(%d, %d)", a, b))
		case *ast.SwitchStmt:
			if identName(s.Tag) != fd.Type.Params.List[0].Names[0].Name || s.Init != nil {
				return "", "", x.errf(s, "switch is not on the encoding in %s.Encode", recv)
			}
			for _, c := range s.Body.List {
				cc := c.(*ast.CaseClause)
				if cc.List == nil {
					return "", "", x.errf(cc, "unexpected default clause in %s.Encode", recv)
				}
				codes, err := x.caseCodes(cc)
				if err != nil {
					return "", "", err
				}
				kind, err := x.encodeClause(recv, cc)
				if err != nil {
					return "", "", err
				}
				cl = append(cl, fmt.Sprintf("{ encs := %s, kind := %s }", codes, kind))
			}
		case *ast.ReturnStmt:
			if len(s.Results) > 1 || (len(s.Results) == 1 && identName(s.Results[0]) != "q") {
				return "", "", x.errf(s, "unrecognised return in %s.Encode", recv)
			}
		default:
			return "", "", x.errf(st, "unrecognised statement in %s.Encode", recv)
		}
	}
	return "[" + strings.Join(sp, ", ") + "]", "[\n    " + strings.Join(cl, ",\n    ") + "]", nil
}

func (x *qualExtract) encodeClause(recv string, cc *ast.CaseClause) (string, error) {
	conv, haveSrc := false, false
	thr, off, floor := -1, -1, 0
	locals := map[string]bool{} // locals holding a converted score
	isConvCall := func(e ast.Expr) bool {
		ce, ok := e.(*ast.CallExpr)
		if !ok || len(ce.Args) != 0 {
			return false
		}
		se, ok := ce.Fun.(*ast.SelectorExpr)
		return ok && identName(se.X) == recv && (se.Sel.Name == "Qsolexa" || se.Sel.Name == "Qphred")
	}
	for _, st := range cc.Body {
		switch s := st.(type) {
		case *ast.ReturnStmt:
			if len(s.Results) == 1 {
				if c, ok := litInt(s.Results[0]); ok && len(cc.Body) == 1 {
					return fmt.Sprintf(".const %d", c), nil
				}
				if identName(s.Results[0]) == "q" {
					continue
				}
			} else if len(s.Results) == 0 {
				continue
			}
			return "", x.errf(s, "unrecognised return in a case of %s.Encode", recv)
		case *ast.AssignStmt:
			if len(s.Lhs) != 1 || len(s.Rhs) != 1 {
				return "", x.errf(s, "unrecognised assignment in %s.Encode", recv)
			}
			lhs := identName(s.Lhs[0])
			if s.Tok == token.DEFINE && isConvCall(s.Rhs[0]) {
				locals[lhs] = true
				continue
			}
			ce, ok := s.Rhs[0].(*ast.CallExpr)
			if s.Tok != token.ASSIGN || lhs != "q" || !ok || identName(ce.Fun) != "byte" || len(ce.Args) != 1 {
				return "", x.errf(s, "unrecognised assignment in %s.Encode", recv)
			}
			switch {
			case identName(ce.Args[0]) == recv:
				conv = false
			case locals[identName(ce.Args[0])] || isConvCall(ce.Args[0]):
				conv = true
			default:
				return "", x.errf(s, "unrecognised score source in %s.Encode", recv)
			}
			haveSrc = true
		case *ast.IfStmt:
			be, ok := s.Cond.(*ast.BinaryExpr)
			if !ok || len(s.Body.List) != 1 || s.Init != nil || s.Else != nil {
				return "", x.errf(s, "unrecognised if in %s.Encode", recv)
			}
			as, ok := s.Body.List[0].(*ast.AssignStmt)
			if !ok || len(as.Lhs) != 1 || identName(as.Lhs[0]) != "q" {
				return "", x.errf(s, "unrecognised if body in %s.Encode", recv)
			}
			lim, ok1 := litInt(be.Y)
			val, ok2 := litInt(as.Rhs[0])
			if !ok1 || !ok2 {
				return "", x.errf(s, "non-literal threshold or offset in %s.Encode", recv)
			}
			switch {
			case be.Op == token.LEQ && as.Tok == token.ADD_ASSIGN && thr < 0:
				// the tested operand is the byte q or the score it was converted from
				t := identName(be.X)
				if t != "q" && t != recv && !locals[t] {
					return "", x.errf(s, "unrecognised threshold operand in %s.Encode", recv)
				}
				thr, off = lim, val
			case be.Op == token.LSS && as.Tok == token.ASSIGN && identName(be.X) == "q" && lim == val && floor == 0:
				floor = lim
			default:
				return "", x.errf(s, "unrecognised if in %s.Encode", recv)
			}
		default:
			return "", x.errf(st, "unrecognised statement in a case of %s.Encode", recv)
		}
	}
	if !haveSrc || thr < 0 {
		return "", x.errf(cc, "case of %s.Encode has no recognisable offset rule", recv)
	}
	return fmt.Sprintf(".offset %v %d %d %d", conv, thr, off, floor), nil
}

// decodeFacts reads `func (e Encoding) DecodeToQ…(q byte) T`: one switch whose clauses
// return `T(q) - O`, `(U(q) - O).Conv()`, or a literal; the default clause panics.
func (x *qualExtract) decodeFacts(fd *ast.FuncDecl) (string, error) {
	name := fd.Name.Name
	if len(fd.Body.List) != 1 {
		return "", x.errf(fd, "%s is no longer a single switch", name)
	}
	sw, ok := fd.Body.List[0].(*ast.SwitchStmt)
	if !ok || identName(sw.Tag) != fd.Recv.List[0].Names[0].Name {
		return "", x.errf(fd, "%s is no longer a switch on the encoding", name)
	}
	arg := fd.Type.Params.List[0].Names[0].Name
	sub := func(e ast.Expr) (int, bool) { // T(arg) - LIT
		if pe, ok := e.(*ast.ParenExpr); ok {
			e = pe.X
		}
		be, ok := e.(*ast.BinaryExpr)
		if !ok || be.Op != token.SUB {
			return 0, false
		}
		ce, ok := be.X.(*ast.CallExpr)
		if !ok || len(ce.Args) != 1 || identName(ce.Args[0]) != arg {
			return 0, false
		}
		if t := identName(ce.Fun); t != "Qphred" && t != "Qsolexa" {
			return 0, false
		}
		return litInt(be.Y)
	}
	var cl []string
	for _, c := range sw.Body.List {
		cc := c.(*ast.CaseClause)
		if cc.List == nil {
			es, ok := cc.Body[0].(*ast.ExprStmt)
			if !ok || len(cc.Body) != 1 {
				return "", x.errf(cc, "default clause of %s no longer panics", name)
			}
			if ce, ok := es.X.(*ast.CallExpr); !ok || identName(ce.Fun) != "panic" {
				return "", x.errf(cc, "default clause of %s no longer panics", name)
			}
			continue
		}
		codes, err := x.caseCodes(cc)
		if err != nil {
			return "", err
		}
		if len(cc.Body) != 1 {
			return "", x.errf(cc, "unrecognised case body in %s", name)
		}
		rs, ok := cc.Body[0].(*ast.ReturnStmt)
		if !ok || len(rs.Results) != 1 {
			return "", x.errf(cc, "unrecognised case body in %s", name)
		}
		r := rs.Results[0]
		var kind string
		if v, ok := litInt(r); ok {
			kind = fmt.Sprintf(".const (%d)", v)
		} else if o, ok := sub(r); ok {
			kind = fmt.Sprintf(".sub false %d", o)
		} else if ce, ok := r.(*ast.CallExpr); ok && len(ce.Args) == 0 {
			se, ok := ce.Fun.(*ast.SelectorExpr)
			if !ok || (se.Sel.Name != "Qphred" && se.Sel.Name != "Qsolexa") {
				return "", x.errf(r, "unrecognised conversion in %s", name)
			}
			o, ok := sub(se.X)
			if !ok {
				return "", x.errf(r, "unrecognised conversion operand in %s", name)
			}
			kind = fmt.Sprintf(".sub true %d", o)
		} else {
			return "", x.errf(r, "unrecognised return expression in %s", name)
		}
		cl = append(cl, fmt.Sprintf("{ encs := %s, kind := %s }", codes, kind))
	}
	return "[\n    " + strings.Join(cl, ",\n    ") + "]", nil
}

func qualFacts(repo string) (string, error) {
	var sb strings.Builder
	sb.WriteString("import Biogo.Model.Quality\nnamespace Biogo.Generated.Qual\nopen Biogo.Quality\n\n")

	// --- runtime tables, read through the exported methods ---
	var pe, se, ps, sp []string
	for q := 0; q < 256; q++ {
		d, err := dyadic(alphabet.Qphred(q).ProbE())
		if err != nil {
			return "", fmt.Errorf("phredETable[%d]: %v", q, err)
		}
		pe = append(pe, d)
		ps = append(ps, strconv.Itoa(int(int8(alphabet.Qphred(q).Qsolexa()))))
	}
	for qs := -128; qs < 128; qs++ {
		d, err := dyadic(alphabet.Qsolexa(qs).ProbE())
		if err != nil {
			return "", fmt.Errorf("solexaETable[%d]: %v", qs+128, err)
		}
		se = append(se, d)
		sp = append(sp, strconv.Itoa(int(alphabet.Qsolexa(qs).Qphred())))
	}
	wrap := func(xs []string, per int) string {
		var b strings.Builder
		for i, s := range xs {
			if i%per == 0 {
				b.WriteString("\n  ")
			}
			b.WriteString(s)
			if i+1 < len(xs) {
				b.WriteString(", ")
			}
		}
		return b.String()
	}
	fmt.Fprintf(&sb, "/-- `Qphred(q).ProbE()` for q = 0 … 255: (float64 bits, exact value m/2^k) -/\ndef phredERaw : List (Nat × Prob) := [%s]\n\n", wrap(pe, 3))
	fmt.Fprintf(&sb, "/-- `Qsolexa(qs).ProbE()` for qs = -128 … 127 (index qs+128) -/\ndef solexaERaw : List (Nat × Prob) := [%s]\n\n", wrap(se, 3))
	fmt.Fprintf(&sb, "/-- `Qphred(q).Qsolexa()` for q = 0 … 255 -/\ndef phredSolexa : List Int := [%s]\n\n", wrap(ps, 32))
	fmt.Fprintf(&sb, "/-- `Qsolexa(qs).Qphred()` for qs = -128 … 127 (index qs+128) -/\ndef solexaPhred : List Nat := [%s]\n\n", wrap(sp, 32))
	sb.WriteString("def tables : Tables :=\n  { phredE := phredERaw.map (·.2), solexaE := solexaERaw.map (·.2),\n    phredSolexa := phredSolexa, solexaPhred := solexaPhred }\n\n")

	// --- encoding constants and the switch statements, from the source ---
	x := &qualExtract{fset: token.NewFileSet(), codes: map[string]int{}}
	var codes []string
	for _, en := range qualEncodings {
		x.codes[en.name] = int(en.e)
		codes = append(codes, fmt.Sprintf("(%q, %d)", en.name, int(en.e)))
	}
	file, err := parser.ParseFile(x.fset, filepath.Join(repo, "alphabet", "letters.go"), nil, 0)
	if err != nil {
		return "", err
	}
	// every Encoding constant declared in the source must be one the harness enumerates
	for _, d := range file.Decls {
		gd, ok := d.(*ast.GenDecl)
		if !ok || gd.Tok != token.CONST {
			continue
		}
		isEnc := false
		for _, s := range gd.Specs {
			vs := s.(*ast.ValueSpec)
			if identName(vs.Type) == "Encoding" {
				isEnc = true
			}
			if isEnc {
				for _, n := range vs.Names {
					if _, ok := x.codes[n.Name]; !ok && n.Name != "_" {
						return "", fmt.Errorf("Encoding constant %s is not known to the harness", n.Name)
					}
				}
			}
		}
	}
	parts := map[string]string{}
	for _, d := range file.Decls {
		fd, ok := d.(*ast.FuncDecl)
		if !ok || fd.Recv == nil || len(fd.Recv.List) != 1 || len(fd.Recv.List[0].Names) != 1 {
			continue
		}
		rt := identName(fd.Recv.List[0].Type)
		switch {
		case fd.Name.Name == "Encode" && (rt == "Qphred" || rt == "Qsolexa"):
			sp, cl, err := x.encodeFacts(fd)
			if err != nil {
				return "", err
			}
			parts[rt+"Special"], parts[rt+"Enc"] = sp, cl
		case rt == "Encoding" && (fd.Name.Name == "DecodeToQphred" || fd.Name.Name == "DecodeToQsolexa"):
			cl, err := x.decodeFacts(fd)
			if err != nil {
				return "", err
			}
			parts[fd.Name.Name] = cl
		}
	}
	for _, k := range []string{"QphredSpecial", "QphredEnc", "QsolexaSpecial", "QsolexaEnc", "DecodeToQphred", "DecodeToQsolexa"} {
		if parts[k] == "" {
			return "", fmt.Errorf("alphabet/letters.go: %s not found", k)
		}
	}
	fmt.Fprintf(&sb, "/-- the Encoding constants -/\ndef encodingCodes : List (String × Int) := [%s]\n\n", strings.Join(codes, ", "))
	fmt.Fprintf(&sb, "/-- special scores, case lists and literals of the four switch statements of alphabet/letters.go -/\ndef source : Source :=\n  { phredSpecial := %s,\n    phredEnc := %s,\n    solexaSpecial := %s,\n    solexaEnc := %s,\n    decPhred := %s,\n    decSolexa := %s }\n\n",
		parts["QphredSpecial"], parts["QphredEnc"], parts["QsolexaSpecial"], parts["QsolexaEnc"], parts["DecodeToQphred"], parts["DecodeToQsolexa"])
	sb.WriteString("end Biogo.Generated.Qual\n")
	return sb.String(), nil
}

func init() {
	hx.Register(&hx.Prop{ID: "C18", Gen: c18Gen, Exec: c18Exec})
	hx.RegisterFacts(hx.FactGen{File: "QualTables.lean", Gen: qualFacts})
}
