package props

// C17 — alphabets: letters, indices, complements.
//
// Inputs
//   b  <name> <l>                     one letter of a built-in alphabet (all 7×256 are enumerated)
//   bl <name> <i>                     Letter(i) and IndexOf(Letter(i)) for 0 ≤ i < Len
//   av <name> <hex letters>           AllValid / AllValidQLetter
//   na <cased> <gap> <amb> <hex>      NewAlphabet on a definition
//   np <hex s> <hex c>                NewPairing
//   nc <cased> <hex letters> <hex s> <hex c>   NewComplementor

import (
	"fmt"
	"go/ast"
	"go/parser"
	"go/token"
	"path/filepath"
	"strconv"
	"strings"

	"github.com/biogo/biogo/alphabet"
	"github.com/biogo/biogo/feat"

	"verif/harness/hx"
)

var builtinAlphabets = []struct {
	name string
	a    alphabet.Alphabet
}{
	{"DNA", alphabet.DNA},
	{"DNAgapped", alphabet.DNAgapped},
	{"DNAredundant", alphabet.DNAredundant},
	{"RNA", alphabet.RNA},
	{"RNAgapped", alphabet.RNAgapped},
	{"RNAredundant", alphabet.RNAredundant},
	{"Protein", alphabet.Protein},
}

func builtinByName(n string) alphabet.Alphabet {
	for _, b := range builtinAlphabets {
		if b.name == n {
			return b.a
		}
	}
	panic("unknown builtin " + n)
}

func alphaErrKind(err error) string {
	s := err.Error()
	switch {
	case strings.Contains(s, "letters contains non-ASCII"):
		return "err:nonascii"
	case strings.Contains(s, "length of pairing"):
		return "err:lenmismatch"
	case strings.Contains(s, "pairing definition contains non-ASCII"):
		return "err:pairnonascii"
	case strings.Contains(s, "not a bijection"):
		return "err:notbijection"
	case strings.Contains(s, "invalid pairing"):
		return "err:invalidpairing"
	}
	return "err:other:" + hx.Hex([]byte(s))
}

func bitmap(f func(i int) bool) string {
	var sb strings.Builder
	for i := 0; i < 256; i += 4 {
		v := 0
		for j := 0; j < 4; j++ {
			if f(i + j) {
				v |= 8 >> uint(j)
			}
		}
		sb.WriteString(strconv.FormatInt(int64(v), 16))
	}
	return sb.String()
}

func c17Exec(input string) string {
	f := hx.Fields(input)
	switch f[0] {
	case "b":
		a := builtinByName(f[1])
		l := alphabet.Letter(hx.Atoi(f[2]))
		valid := a.IsValid(l)
		idx := a.IndexOf(l)
		at := "x"
		if idx >= 0 && idx < a.Len() {
			at = strconv.Itoa(int(a.Letter(idx)))
		}
		tabValid := a.ValidLetters()[l]
		tabIdx := a.LetterIndex()[l]
		out := fmt.Sprintf("%s %d %s %s %d", hx.B(valid), idx, at, hx.B(tabValid), tabIdx)
		if c, ok := a.(alphabet.Complementor); ok {
			cl, cok := c.Complement(l)
			ccl, _ := c.Complement(cl)
			out += fmt.Sprintf(" %d %s %d %d %s %d", cl, hx.B(cok), c.ComplementTable()[l], a.IndexOf(cl), hx.B(a.IsValid(cl)), ccl)
		} else {
			out += " x x x x x x"
		}
		return out
	case "bl":
		a := builtinByName(f[1])
		i := hx.Atoi(f[2])
		l := a.Letter(i)
		return fmt.Sprintf("%d %d %d", a.Len(), l, a.IndexOf(l))
	case "av":
		a := builtinByName(f[1])
		bs := hx.Unhex(f[2])
		ok, pos := a.AllValid(alphabet.BytesToLetters(bs))
		ql := make([]alphabet.QLetter, len(bs))
		for i, b := range bs {
			ql[i] = alphabet.QLetter{L: alphabet.Letter(b), Q: alphabet.Qphred(i)}
		}
		okq, posq := a.AllValidQLetter(ql)
		return fmt.Sprintf("%s %d %s %d", hx.B(ok), pos, hx.B(okq), posq)
	case "na":
		cased := f[1] == "1"
		a, err := alphabet.NewAlphabet(string(hx.Unhex(f[4])), feat.DNA, alphabet.Letter(hx.Atoi(f[2])), alphabet.Letter(hx.Atoi(f[3])), cased)
		if err != nil {
			return alphaErrKind(err)
		}
		idx := make([]int, 256)
		for i := range idx {
			idx[i] = a.IndexOf(alphabet.Letter(i))
		}
		return fmt.Sprintf("ok %d %s %s %s %s %d %d", a.Len(), bitmap(func(i int) bool { return a.IsValid(alphabet.Letter(i)) }),
			hx.Ints(idx), hx.Hex([]byte(a.Letters())), hx.B(a.IsCased()), a.Gap(), a.Ambiguous())
	case "np":
		p, err := alphabet.NewPairing(string(hx.Unhex(f[1])), string(hx.Unhex(f[2])))
		if err != nil {
			return alphaErrKind(err)
		}
		pair := make([]byte, 256)
		for i := range pair {
			c, _ := p.Complement(alphabet.Letter(i))
			pair[i] = byte(c)
		}
		return fmt.Sprintf("ok %s %s %s", hx.Hex(pair),
			bitmap(func(i int) bool { _, ok := p.Complement(alphabet.Letter(i)); return ok }),
			hx.Hex(alphabet.LettersToBytes(p.ComplementTable())))
	case "nc":
		cased := f[1] == "1"
		p, err := alphabet.NewPairing(string(hx.Unhex(f[3])), string(hx.Unhex(f[4])))
		if err != nil {
			return alphaErrKind(err)
		}
		_, err = alphabet.NewComplementor(string(hx.Unhex(f[2])), feat.DNA, p, '-', 'n', cased)
		if err != nil {
			return alphaErrKind(err)
		}
		return "ok"
	}
	panic("c17: bad input " + input)
}

func c17Gen(g *hx.Gen) {
	// exhaustive part: every letter of every built-in alphabet
	for _, b := range builtinAlphabets {
		for l := 0; l < 256; l++ {
			g.Casef("b %s %d", b.name, l)
		}
		for i := 0; i < b.a.Len(); i++ {
			g.Casef("bl %s %d", b.name, i)
		}
	}
	// explicit definitions: upper-case and mixed-case letters for case-insensitive alphabets,
	// both cases of one letter, a non-letter, the empty definition
	for _, def := range []string{"ACGT", "AcGt", "acgt", "aCgT-", "ACGTacgt", "aA", "Zz9", "-", "", "ABCDEFGHIJKLMNOPQRSTUVWXYZ", "@[`{", "AZaz", "ac\u0080gt", "ac\u0081gt", "\u00ff", "a\u0100"} {
		for _, cased := range []string{"0", "1"} {
			g.Casef("na %s %d %d %s", cased, '-', 'n', hx.Hex([]byte(def)))
		}
	}
	for _, pr := range [][2]string{{"acgt", "tgca"}, {"ACGT", "TGCA"}, {"acgtACGT", "tgcaTGCA"}, {"\x7f\x01", "\x01\x7f"}, {"a", "a"}, {"ab", "bc"}, {"abc", "bca"}, {"a", "b"}, {"\x7f", "\x7f"}, {"\u0080", "\u0080"}, {"a\u0080", "\u0080a"}, {"a\u0081", "\u0081a"},
		// NUL is a legal ASCII letter: a pairing with an undefined complement must not read as 0 = NUL
		{"\x00", "t"}, {"\x00", "\x01"}, {"\x00\x01", "\x01\x00"}, {"a\x00", "\x00a"}, {"t", "\x00"}} {
		s0, _ := strconv.Unquote(`"` + pr[0] + `"`)
		c0, _ := strconv.Unquote(`"` + pr[1] + `"`)
		g.Casef("np %s %s", hx.Hex([]byte(s0)), hx.Hex([]byte(c0)))
	}
	n := g.Scale(1500, 100000)
	const pool = "acgtnxACGTNX-*mrwsykvhdbMRWSYKVHDBuU"
	for k := 0; k < n && !g.Done(); k++ {
		switch g.Intn(5) {
		case 0: // letter slices against a built-in alphabet, invalid letters at chosen places
			b := builtinAlphabets[g.Intn(len(builtinAlphabets))]
			ls := g.Letters(b.a.Letters(), g.Pick(0, 1, 2, 7, 40, 300))
			for j := g.Pick(0, 0, 1, 2, 3); j > 0 && len(ls) > 0; j-- {
				ls[g.Intn(len(ls))] = byte(g.Intn(256))
			}
			g.Casef("av %s %s", b.name, hx.Hex(ls))
		case 1: // alphabet definitions: mostly distinct letters, sometimes duplicates / both cases / non-ASCII
			def := randDef(g)
			g.Casef("na %s %d %d %s", hx.B(g.Chance(0.5)), g.Intn(128), g.Intn(128), hx.Hex(def))
		case 2, 3: // pairings: valid involutions, broken involutions, length mismatch, non-ASCII
			s, c := randPairing(g)
			g.Casef("np %s %s", hx.Hex(s), hx.Hex(c))
		case 4:
			s, c := randPairing(g)
			var def []byte
			if g.Chance(0.6) {
				// definition covering the pairing's letters
				seen := map[byte]bool{}
				for _, b := range append(append([]byte{}, s...), c...) {
					lb := b
					if lb >= 'A' && lb <= 'Z' {
						lb += 32
					}
					if !seen[lb] && b < 128 {
						seen[lb] = true
						def = append(def, lb)
					}
				}
				if g.Chance(0.3) && len(def) > 1 {
					def = def[:len(def)-1]
				}
			} else {
				def = randDef(g)
			}
			g.Casef("nc %s %s %s %s", hx.B(g.Chance(0.5)), hx.Hex(def), hx.Hex(s), hx.Hex(c))
		}
	}
	_ = pool
}

var c17Runes = [][]byte{{0xc2, 0x80}, {0xc2, 0x80}, {0xc2, 0x81}, {0xc3, 0xa9}, {0xc3, 0xbf}, {0xc4, 0x80}, {0xdf, 0xbf}, {0xe2, 0x82, 0xac}}

func randDef(g *hx.Gen) []byte {
	n := g.Pick(0, 1, 2, 4, 5, 16, 26, 40)
	perm := g.Perm(95)
	var def []byte
	for i := 0; i < n && i < len(perm); i++ {
		def = append(def, byte(32+perm[i]))
	}
	switch g.Intn(10) {
	case 0: // duplicate letter
		if len(def) > 1 {
			def[g.Intn(len(def))] = def[g.Intn(len(def))]
		}
	case 1: // non-ASCII byte
		if len(def) > 0 {
			def[g.Intn(len(def))] = byte(128 + g.Intn(128))
		}
	case 2: // valid UTF-8 two byte rune
		// well-formed multi-byte runes, including the first code points above ASCII
		// (U+0080, U+0081), U+00FF/U+0100 and the last two-byte rune
		def = append(def, c17Runes[g.Intn(len(c17Runes))]...)
	}
	return def
}

func randPairing(g *hx.Gen) (s, c []byte) {
	// build an involution on a random subset of ASCII letters
	n := g.Pick(0, 1, 2, 3, 6, 12)
	perm := g.Perm(94)
	for i := 0; i+1 < 2*n && i+1 < len(perm); i += 2 {
		a, b := byte(33+perm[i]), byte(33+perm[i+1])
		if g.Chance(0.05) {
			a = byte(g.Intn(4)) // NUL and the lowest control letters
		}
		if g.Chance(0.05) {
			b = byte(g.Intn(4))
		}
		if g.Chance(0.2) {
			b = a // self-paired letter
		}
		s = append(s, a)
		c = append(c, b)
		if a != b && g.Chance(0.85) {
			s = append(s, b)
			c = append(c, a)
		}
	}
	switch g.Intn(12) {
	case 0: // length mismatch
		if g.Chance(0.5) {
			s = append(s, 'q')
		} else {
			c = append(c, 'q')
		}
	case 1: // non-ASCII in s or c
		if len(s) > 0 {
			if g.Chance(0.5) {
				if g.Chance(0.5) {
					// a well-formed non-ASCII rune in both strings (equal byte lengths, so that
					// the length test passes and the rune test is reached)
					r := c17Runes[g.Intn(len(c17Runes))]
					i := g.Intn(len(s) + 1)
					s = append(s[:i:i], append(append([]byte{}, r...), s[i:]...)...)
					j := g.Intn(len(c) + 1)
					c = append(c[:j:j], append(append([]byte{}, r...), c[j:]...)...)
				} else {
					s[g.Intn(len(s))] = byte(128 + g.Intn(128))
				}
			} else {
				c[g.Intn(len(c))] = byte(128 + g.Intn(128))
			}
		}
	case 2: // break the involution
		if len(c) > 0 {
			c[g.Intn(len(c))] = byte(33 + g.Intn(94))
		}
	case 3: // duplicate source letter (last one wins)
		if len(s) > 1 {
			s[g.Intn(len(s))] = s[g.Intn(len(s))]
		}
	}
	return s, c
}

// ---- regenerated facts: the built-in alphabet definitions as written in the source ----

func alphabetFacts(repo string) (string, error) {
	fset := token.NewFileSet()
	file, err := parser.ParseFile(fset, filepath.Join(repo, "alphabet", "alphabet.go"), nil, 0)
	if err != nil {
		return "", err
	}
	var sb strings.Builder
	sb.WriteString("import Biogo.Model.Alphabet\nnamespace Biogo.Generated\nopen Biogo.Alphabet\n\n")
	var names []string
	str := func(e ast.Expr) (string, error) {
		bl, ok := e.(*ast.BasicLit)
		if !ok || (bl.Kind != token.STRING && bl.Kind != token.CHAR) {
			return "", fmt.Errorf("expected literal at %s", fset.Position(e.Pos()))
		}
		if bl.Kind == token.CHAR {
			r, _, _, err := strconv.UnquoteChar(bl.Value[1:len(bl.Value)-1], '\'')
			return string(rune(r)), err
		}
		return strconv.Unquote(bl.Value)
	}
	bytesLit := func(s string) string {
		var parts []string
		for _, b := range []byte(s) {
			parts = append(parts, strconv.Itoa(int(b)))
		}
		return "[" + strings.Join(parts, ", ") + "]"
	}
	caseOf := func(e ast.Expr) (bool, error) {
		switch v := e.(type) {
		case *ast.Ident:
			if v.Name == "CaseSensitive" || v.Name == "true" {
				return true, nil
			}
			if v.Name == "false" {
				return false, nil
			}
		case *ast.UnaryExpr:
			if id, ok := v.X.(*ast.Ident); ok && v.Op == token.NOT && id.Name == "CaseSensitive" {
				return false, nil
			}
		}
		return false, fmt.Errorf("unrecognised case-sensitivity argument at %s", fset.Position(e.Pos()))
	}
	// the constant CaseSensitive must still be `true`
	caseConst := false
	for _, d := range file.Decls {
		gd, ok := d.(*ast.GenDecl)
		if !ok {
			continue
		}
		for _, sp := range gd.Specs {
			vs, ok := sp.(*ast.ValueSpec)
			if !ok {
				continue
			}
			for i, n := range vs.Names {
				if gd.Tok == token.CONST && n.Name == "CaseSensitive" && i < len(vs.Values) {
					if id, ok := vs.Values[i].(*ast.Ident); ok && id.Name == "true" {
						caseConst = true
					}
				}
				if gd.Tok != token.VAR || i >= len(vs.Values) {
					continue
				}
				outer, ok := vs.Values[i].(*ast.CallExpr)
				if !ok || len(outer.Args) != 1 {
					continue
				}
				inner, ok := outer.Args[0].(*ast.CallExpr)
				if !ok {
					continue
				}
				fn, _ := inner.Fun.(*ast.Ident)
				if fn == nil || (fn.Name != "NewComplementor" && fn.Name != "NewAlphabet") {
					continue
				}
				args := inner.Args
				letters, err := str(args[0])
				if err != nil {
					return "", err
				}
				pairS, pairC := "none", "none"
				rest := args[2:]
				if fn.Name == "NewComplementor" {
					mp, ok := args[2].(*ast.CallExpr)
					if !ok || len(mp.Args) != 1 {
						return "", fmt.Errorf("%s: unrecognised pairing expression", n.Name)
					}
					np, ok := mp.Args[0].(*ast.CallExpr)
					if !ok || len(np.Args) != 2 {
						return "", fmt.Errorf("%s: unrecognised pairing expression", n.Name)
					}
					s, err := str(np.Args[0])
					if err != nil {
						return "", err
					}
					c, err := str(np.Args[1])
					if err != nil {
						return "", err
					}
					pairS, pairC = "some "+bytesLit(s), "some "+bytesLit(c)
					rest = args[3:]
				}
				if len(rest) != 3 {
					return "", fmt.Errorf("%s: unexpected argument count", n.Name)
				}
				gap, err := str(rest[0])
				if err != nil {
					return "", err
				}
				amb, err := str(rest[1])
				if err != nil {
					return "", err
				}
				cased, err := caseOf(rest[2])
				if err != nil {
					return "", err
				}
				nuc4 := fn.Name == "NewComplementor" && len(letters) == 4
				fmt.Fprintf(&sb, "def alpha%s : Def :=\n  { name := %q, letters := %s,\n    pairS := %s,\n    pairC := %s,\n    gap := %d, ambiguous := %d, cased := %v, nucleotide4 := %v }\n\n",
					n.Name, n.Name, bytesLit(letters), pairS, pairC, gap[0], amb[0], cased, nuc4)
				names = append(names, "alpha"+n.Name)
			}
		}
	}
	if !caseConst {
		return "", fmt.Errorf("constant CaseSensitive is no longer `true`")
	}
	if len(names) == 0 {
		return "", fmt.Errorf("no built-in alphabet definitions found")
	}
	fmt.Fprintf(&sb, "def builtins : List Def := [%s]\n\nend Biogo.Generated\n", strings.Join(names, ", "))
	return sb.String(), nil
}

// c17Shrink proposes shorter byte strings for the hex arguments of av / na / np / nc.
func c17Shrink(input string) []string {
	f := hx.Fields(input)
	var out []string
	first := map[string]int{"av": 2, "na": 4, "np": 1, "nc": 2}[f[0]]
	if first == 0 {
		return nil
	}
	for k := first; k < len(f); k++ {
		b := hx.Unhex(f[k])
		var cands [][]byte
		if len(b) > 1 {
			cands = append(cands, b[:len(b)/2], b[len(b)/2:], b[1:], b[:len(b)-1])
		}
		for i := 0; i < len(b) && len(b) > 1 && len(b) <= 24; i++ {
			cands = append(cands, append(append([]byte{}, b[:i]...), b[i+1:]...))
		}
		for _, c := range cands {
			g := append([]string{}, f...)
			g[k] = hx.Hex(c)
			out = append(out, strings.Join(g, " "))
		}
	}
	return out
}

func init() {
	hx.Register(&hx.Prop{ID: "C17", Gen: c17Gen, Exec: c17Exec, Shrink: c17Shrink})
	hx.RegisterFacts(hx.FactGen{File: "Alphabets.lean", Gen: alphabetFacts})
}
