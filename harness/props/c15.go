package props

// C15 — PALS hits are real alignments; planted repeats are found.
//
// Input
//   pw <self> <minLen> <minIdMilli> <maxMemMB> <plants> <target> <query|->
//     self        1: self comparison (query is the target, selfCompare=true), 0: two sequences
//     minLen      minimum hit length passed to Optimise
//     minIdMilli  minimum identity in thousandths passed to Optimise (as float64(milli)/1000)
//     maxMemMB    memory cap handed to pals.New (0 = none); it only limits the word length Optimise
//                 may choose (k=15 needs a 4 GB index)
//     plants      ';' separated planted repeat pairs  aPos:aLen:bPos:bLen:comp[:class]  ("-" none):
//                 copy A is target[aPos,aPos+aLen), copy B is query[bPos,bPos+bLen) in the
//                 query's own coordinates, reverse-complemented when comp=1.  Only the driver
//                 uses them (recall); the implementation never sees them.  class 0 (default): the
//                 calibrated class, recall always demanded; class 1: boundary class (length
//                 minLen+1..minLen+12, a substitution 4..11 letters from an end), recall demanded by the
//                 driver exactly when the pair contains an eps-match of the chosen filter parameters
//     target, query  letters (acgt), query "-" for self comparison
//
//   pt <minLen> <minIdMilli> <plants> <traps> <target> <query>
//     two sequences, forward strand only: pals.New, Optimise, then AlignFrom(traps, false) with the given
//     trapezoids (';' separated Top:Bottom:Left:Right, ascending Bottom) instead of the filter's; every
//     planted pair lies inside one of the trapezoids.  Observation as for pw.
//
// Observation
//   err:<kind>                         Optimise/BuildIndex/Align failed
//   P=k,n,e,off O=w,d H=<hits>         filter parameters chosen by Optimise; the float-derived inputs of its
//                                      search (minWordSize, initial seedDiffs); then all hits of
//                                      Align(false) and Align(true), ';' separated, each
//                                      strand:Abpos:Aepos:Bbpos:Bepos:Score:ErrE12:LowDiag:HighDiag
//                                      (strand 0 = forward, 1 = complement; B coordinates are in the
//                                      sequence Align worked on, i.e. the reverse complement of the
//                                      query for strand 1; ErrE12 = round(Error*1e12)); for pw a fourth token
//                                      T=<traps strand 0>|<traps strand 1> (';' separated Top:Bottom:Left:Right): the
//                                      trapezoids the merger handed to the aligner

import (
	"fmt"
	"go/ast"
	"go/constant"
	"go/importer"
	"go/parser"
	"go/printer"
	"go/token"
	"go/types"
	"crypto/sha256"
	"math"
	"os"
	"path/filepath"
	"sort"
	"strings"
	"time"

	"github.com/biogo/biogo/align/pals"
	"github.com/biogo/biogo/align/pals/dp"
	"github.com/biogo/biogo/align/pals/filter"
	"github.com/biogo/biogo/alphabet"
	"github.com/biogo/biogo/morass"
	"github.com/biogo/biogo/seq/linear"
	"github.com/biogo/biogo/util"

	"verif/harness/hx"
)

var c15TmpDir string

func c15Tmp() string {
	if c15TmpDir == "" {
		d, err := os.MkdirTemp("", "verif-c15-")
		if err != nil {
			panic(err)
		}
		c15TmpDir = d
	}
	return c15TmpDir
}

// po <tlen> <qlen> <minLen> <minIdMillionths> <maxMemMB> <tubeOffset>: Optimise alone, on sequences of
// the given lengths (qlen 0 = self comparison).  Observation: P=k,n,e,off O=w,d  or  err:optimise O=w,d
// or err:args (argument checks of Optimise).
func c15ExecOptimise(f []string) string {
	tlen, qlen, minLen := hx.Atoi(f[1]), hx.Atoi(f[2]), hx.Atoi(f[3])
	minID := float64(hx.Atoi(f[4])) / 1e6
	var maxMem *uintptr
	if mb := hx.Atoi(f[5]); mb > 0 {
		v := uintptr(mb) << 20
		maxMem = &v
	}
	target := &linear.Seq{Seq: make(alphabet.Letters, tlen)}
	query := target
	if qlen > 0 {
		query = &linear.Seq{Seq: make(alphabet.Letters, qlen)}
	}
	pa := pals.New(target, query, qlen == 0, nil, hx.Atoi(f[6]), maxMem, nil)
	mws := int(util.Log4(float64(target.Len())) - util.Log4(pals.MaxAvgIndexListLen) + 0.5)
	sd0 := int(float64(minLen) * (1 - minID))
	if err := pa.Optimise(minLen, minID); err != nil {
		if strings.Contains(err.Error(), "failed to find") {
			return fmt.Sprintf("err:optimise O=%d,%d", mws, sd0)
		}
		return "err:args"
	}
	fp := pa.FilterParams
	return fmt.Sprintf("P=%d,%d,%d,%d O=%d,%d", fp.WordSize, fp.MinMatch, fp.MaxError, fp.TubeOffset, mws, sd0)
}

// pt: the aligner on a hand-made trapezoid list
func c15ExecTraps(f []string) string {
	minLen := hx.Atoi(f[1])
	minID := float64(hx.Atoi(f[2])) / 1000
	target := linear.NewSeq("t", alphabet.BytesToLetters([]byte(f[5])), alphabet.DNA)
	query := linear.NewSeq("q", alphabet.BytesToLetters([]byte(f[6])), alphabet.DNA)
	v := uintptr(64) << 20
	pa := pals.New(target, query, false, nil, 0, &v, nil)
	mws := int(util.Log4(float64(target.Len())) - util.Log4(pals.MaxAvgIndexListLen) + 0.5)
	sd0 := int(float64(minLen) * (1 - minID))
	if err := pa.Optimise(minLen, minID); err != nil {
		return fmt.Sprintf("err:optimise O=%d,%d", mws, sd0)
	}
	var traps filter.Trapezoids
	if f[4] != "-" {
		for _, ts := range strings.Split(f[4], ";") {
			x := strings.Split(ts, ":")
			if len(x) != 4 {
				panic("c15: bad trapezoid")
			}
			traps = append(traps, filter.Trapezoid{Top: hx.Atoi(x[0]), Bottom: hx.Atoi(x[1]), Left: hx.Atoi(x[2]), Right: hx.Atoi(x[3])})
		}
	}
	hits, err := pa.AlignFrom(traps, false)
	if err != nil {
		return "err:align:" + hx.Hex([]byte(err.Error()))
	}
	fp := pa.FilterParams
	var sb strings.Builder
	fmt.Fprintf(&sb, "P=%d,%d,%d,%d O=%d,%d H=", fp.WordSize, fp.MinMatch, fp.MaxError, fp.TubeOffset, mws, sd0)
	c15RenderHits(&sb, 0, hits, 0)
	if len(hits) == 0 {
		sb.WriteByte('-')
	}
	return sb.String()
}

func c15RenderTraps(traps filter.Trapezoids) string {
	if len(traps) == 0 {
		return "-"
	}
	ss := make([]string, len(traps))
	for i, t := range traps {
		ss[i] = fmt.Sprintf("%d:%d:%d:%d", t.Top, t.Bottom, t.Left, t.Right)
	}
	return strings.Join(ss, ";")
}

// c15RenderHits appends the hits of one strand in a canonical order; n = number of hits already written
func c15RenderHits(sb *strings.Builder, strand int, hits dp.Hits, n int) int {
	hs := append(dp.Hits(nil), hits...)
	sort.SliceStable(hs, func(i, j int) bool {
		a, b := hs[i], hs[j]
		if a.Abpos != b.Abpos {
			return a.Abpos < b.Abpos
		}
		if a.Bbpos != b.Bbpos {
			return a.Bbpos < b.Bbpos
		}
		if a.Aepos != b.Aepos {
			return a.Aepos < b.Aepos
		}
		return a.Bepos < b.Bepos
	})
	for _, h := range hs {
		if n > 0 {
			sb.WriteByte(';')
		}
		n++
		e12 := "nan"
		if !math.IsNaN(h.Error) && !math.IsInf(h.Error, 0) {
			e12 = fmt.Sprintf("%d", int64(math.Round(h.Error*1e12)))
		}
		fmt.Fprintf(sb, "%d:%d:%d:%d:%d:%d:%s:%d:%d", strand, h.Abpos, h.Aepos, h.Bbpos, h.Bepos, h.Score, e12, h.LowDiagonal, h.HighDiagonal)
	}
	return n
}

func c15Exec(input string) string {
	f := hx.Fields(input)
	if len(f) == 7 && f[0] == "po" {
		return c15ExecOptimise(f)
	}
	if len(f) == 7 && f[0] == "pt" {
		return c15ExecTraps(f)
	}
	if len(f) != 8 || f[0] != "pw" {
		panic("c15: bad input")
	}
	self := f[1] == "1"
	minLen := hx.Atoi(f[2])
	minID := float64(hx.Atoi(f[3])) / 1000
	var maxMem *uintptr
	if mb := hx.Atoi(f[4]); mb > 0 {
		v := uintptr(mb) << 20
		maxMem = &v
	}
	target := linear.NewSeq("t", alphabet.BytesToLetters([]byte(f[6])), alphabet.DNA)
	query := target
	if !self {
		query = linear.NewSeq("q", alphabet.BytesToLetters([]byte(f[7])), alphabet.DNA)
	}
	m, err := morass.New(filter.Hit{}, "c15", c15Tmp(), 2<<20, false)
	if err != nil {
		return "err:morass"
	}
	defer m.CleanUp()
	pa := pals.New(target, query, self, m, 0, maxMem, nil)
	if err := pa.Optimise(minLen, minID); err != nil {
		mws := int(util.Log4(float64(target.Len())) - util.Log4(pals.MaxAvgIndexListLen) + 0.5)
		sd0 := int(float64(minLen) * (1 - minID))
		return fmt.Sprintf("err:optimise O=%d,%d", mws, sd0)
	}
	if err := pa.BuildIndex(); err != nil {
		return "err:index"
	}
	var sb strings.Builder
	fp := pa.FilterParams
	// the two float computations at the head of Optimise, repeated here: they are inputs of the
	// integer model of the parameter search
	mws := int(util.Log4(float64(target.Len())) - util.Log4(pals.MaxAvgIndexListLen) + 0.5)
	sd0 := int(float64(minLen) * (1 - minID))
	fmt.Fprintf(&sb, "P=%d,%d,%d,%d O=%d,%d H=", fp.WordSize, fp.MinMatch, fp.MaxError, fp.TubeOffset, mws, sd0)
	n := 0
	var ts [2]string
	for strand, comp := range []bool{false, true} {
		hits, err := pa.Align(comp)
		if err != nil {
			return "err:align:" + hx.Hex([]byte(err.Error()))
		}
		n = c15RenderHits(&sb, strand, hits, n)
		ts[strand] = c15RenderTraps(pa.Trapezoids())
	}
	if n == 0 {
		sb.WriteByte('-')
	}
	// the trapezoids each strand's aligner was given (the kernel model is run on them)
	fmt.Fprintf(&sb, " T=%s|%s", ts[0], ts[1])
	return sb.String()
}

// ---- generator ----

func c15Comp(b byte) byte {
	switch b {
	case 'a':
		return 't'
	case 'c':
		return 'g'
	case 'g':
		return 'c'
	case 't':
		return 'a'
	}
	return b
}

func c15RevComp(s []byte) []byte {
	r := make([]byte, len(s))
	for i, b := range s {
		r[len(s)-1-i] = c15Comp(b)
	}
	return r
}

// mutate a copy: nsub substitutions (to a different letter) and nindel indels of length 1..3
func c15Mutate(g *hx.Gen, s []byte, nsub, nindel int) []byte {
	widths := make([]int, nindel)
	for i := range widths {
		widths[i] = 1 + g.Intn(3)
	}
	return c15MutateW(g, s, nsub, widths)
}

// c15MutateW: nsub substitutions and one indel of each given width.  The first and last 12 letters
// stay intact and any two edits are at least 10 letters apart ("small indels", identity above the
// threshold locally as well: a burst of edits costing more than BlockCost = 15 ends an x-drop
// extension whatever the overall identity).  Edits that cannot be placed are dropped.
func c15MutateW(g *hx.Gen, s []byte, nsub int, widths []int) []byte {
	return c15MutateS(g, s, nsub, widths, 10)
}

// c15MutateS is c15MutateW with the minimum distance between two edits as a parameter
func c15MutateS(g *hx.Gen, s []byte, nsub int, widths []int, spacing int) []byte {
	c := append([]byte{}, s...)
	lo, hi := 12, len(c)-16
	if hi <= lo {
		return c
	}
	type edit struct{ pos, width int } // width 0 = substitution, >0 insertion, <0 deletion
	var edits []edit
	place := func(w int) {
		for try := 0; try < 40; try++ {
			p := lo + g.Intn(hi-lo)
			ok := true
			for _, e := range edits {
				d := e.pos - p
				if d < 0 {
					d = -d
				}
				if d < spacing {
					ok = false
					break
				}
			}
			if ok {
				edits = append(edits, edit{p, w})
				return
			}
		}
	}
	for _, w := range widths {
		if g.Chance(0.5) {
			w = -w
		}
		place(w)
	}
	for k := 0; k < nsub; k++ {
		place(0)
	}
	sort.Slice(edits, func(i, j int) bool { return edits[i].pos > edits[j].pos })
	for _, e := range edits {
		switch {
		case e.width == 0:
			for {
				b := "acgt"[g.Intn(4)]
				if b != c[e.pos] {
					c[e.pos] = b
					break
				}
			}
		case e.width < 0:
			c = append(c[:e.pos], c[e.pos-e.width:]...)
		default:
			ins := g.Letters("acgt", e.width)
			c = append(c[:e.pos], append(ins, c[e.pos:]...)...)
		}
	}
	return c
}

type c15Plant struct{ aPos, aLen, bPos, bLen, comp, cls int }

// one workload
func c15Workload(g *hx.Gen) string {
	maxL := g.Scale(5000, 20000)
	L := g.Range(2000, maxL)
	if g.Thorough() && g.Chance(0.5) {
		L = g.Range(2000, 6000)
	}
	self := g.Chance(0.5)
	minLen := g.Pick(100, 120, 150, 200)
	minIDm := g.Pick(750, 800, 850, 900, 940)
	target := g.Letters("acgt", L)
	var query []byte
	if !self {
		query = g.Letters("acgt", g.Range(2000, maxL))
	}
	nplants := g.Pick(0, 1, 1, 1, 1, 2)
	var plants []c15Plant
	type span struct{ s, e int }
	var usedT, usedQ []span
	free := func(used []span, s, e int) bool {
		for _, u := range used {
			if s < u.e+50 && u.s < e+50 {
				return false
			}
		}
		return true
	}
	for p := 0; p < nplants; p++ {
		// longer than the minimum hit length by a margin that leaves room for the few letters the
		// x-drop extension may trim at a copy's ends
		lo := minLen + 30
		R := g.Range(lo, 500)
		if g.Chance(0.3) {
			R = g.Range(lo, lo+60)
		}
		// boundary class: only a few letters longer than the minimum hit length, with a substitution so
		// close to an end that the k-mers beyond it are lost and the filter trapezoid is lower than minLen
		cls := 0
		if g.Chance(0.3) {
			cls = 1
			R = minLen + g.Range(1, 12)
		}
		rep := g.Letters("acgt", R)
		// copy B: exact, substitutions, or substitutions and small indels; identity comfortably above minId:
		// at most a third of the allowed differences
		allowed := int(float64(R) * (1 - float64(minIDm)/1000) / 3)
		var cp []byte
		kind := g.Intn(3)
		if cls == 1 {
			kind = 3
		}
		switch kind {
		case 3:
			cp = append([]byte{}, rep...)
			subst := func(p int) {
				for {
					b := "acgt"[g.Intn(4)]
					if b != cp[p] {
						cp[p] = b
						return
					}
				}
			}
			r := g.Range(4, 11)
			if g.Chance(0.5) {
				subst(r)
			} else {
				subst(R - 1 - r)
			}
			if allowed >= 2 && g.Chance(0.5) {
				subst(g.Range(25, R-26))
			}
			if allowed >= 3 && g.Chance(0.25) {
				// one single-letter indel in the middle (the pair then usually has no eps-match of full seed length)
				p := g.Range(40, R-41)
				if g.Chance(0.5) {
					cp = append(cp[:p], cp[p+1:]...)
				} else {
					cp = append(cp[:p], append(g.Letters("acgt", 1), cp[p:]...)...)
				}
			}
		case 0:
			cp = append([]byte{}, rep...)
		case 1:
			cp = c15Mutate(g, rep, g.Range(0, allowed), 0)
		default:
			// indels count letter by letter against the same budget
			var widths []int
			left := allowed
			for k := g.Range(1, 3); k > 0 && left > 0; k-- {
				w := g.Range(1, 3)
				if w > left {
					w = left
				}
				widths = append(widths, w)
				left -= w
			}
			cp = c15MutateW(g, rep, g.Range(0, left), widths)
		}
		comp := 0
		if g.Chance(0.5) {
			comp = 1
			cp = c15RevComp(cp)
		}
		qseq := query
		if self {
			qseq = target
		}
		placed := false
		for try := 0; try < 50 && !placed; try++ {
			a := g.Intn(len(target) - len(rep))
			b := g.Intn(len(qseq) - len(cp))
			// sequence boundaries: a copy starting at the first or ending at the last letter
			switch g.Intn(12) {
			case 0:
				a = 0
			case 1:
				a = len(target) - len(rep)
			case 2:
				b = 0
			case 3:
				b = len(qseq) - len(cp)
			}
			uq := usedQ
			if self {
				uq = usedT
			}
			if !free(usedT, a, a+len(rep)) || !free(uq, b, b+len(cp)) {
				continue
			}
			if self && a < b+len(cp)+50 && b < a+len(rep)+50 {
				continue
			}
			copy(target[a:], rep)
			copy(qseq[b:], cp)
			usedT = append(usedT, span{a, a + len(rep)})
			if self {
				usedT = append(usedT, span{b, b + len(cp)})
			} else {
				usedQ = append(usedQ, span{b, b + len(cp)})
			}
			plants = append(plants, c15Plant{a, len(rep), b, len(cp), comp, cls})
			placed = true
		}
	}
	// decoys (not listed, nothing is demanded of them): a copy whose identity is below the minimum, or an
	// exact copy shorter than the minimum hit length; they exercise the identity and length tests of the
	// aligner, which must not report them
	if g.Chance(0.6) {
		qseq := query
		if self {
			qseq = target
		}
		var rep, cp []byte
		if g.Chance(0.5) {
			R := g.Range(minLen*3/2, 500)
			if R < minLen*3/2 {
				R = minLen * 3 / 2
			}
			rep = g.Letters("acgt", R)
			full := float64(R) * (1 - float64(minIDm)/1000)
			cp = c15MutateS(g, rep, int(full*(1.3+1.2*g.Float64()))+2, nil, 1)
		} else {
			R := minLen * g.Range(55, 97) / 100
			rep = g.Letters("acgt", R)
			cp = c15Mutate(g, rep, g.Intn(3), 0)
		}
		if g.Chance(0.5) {
			cp = c15RevComp(cp)
		}
		for try := 0; try < 50; try++ {
			a := g.Intn(len(target) - len(rep))
			b := g.Intn(len(qseq) - len(cp))
			uq := usedQ
			if self {
				uq = usedT
			}
			if !free(usedT, a, a+len(rep)) || !free(uq, b, b+len(cp)) {
				continue
			}
			if self && a < b+len(cp)+50 && b < a+len(rep)+50 {
				continue
			}
			copy(target[a:], rep)
			copy(qseq[b:], cp)
			break
		}
	}
	ps := "-"
	if len(plants) > 0 {
		ss := make([]string, len(plants))
		for i, p := range plants {
			ss[i] = fmt.Sprintf("%d:%d:%d:%d:%d", p.aPos, p.aLen, p.bPos, p.bLen, p.comp)
			if p.cls != 0 {
				ss[i] += fmt.Sprintf(":%d", p.cls)
			}
		}
		ps = strings.Join(ss, ";")
	}
	q := "-"
	if !self {
		q = string(query)
	}
	mem := 64
	if g.Thorough() && g.Chance(0.01) {
		mem = 0 // no cap: Optimise may pick k=15 (4 GB index)
	}
	return fmt.Sprintf("pw %s %d %d %d %s %s %s", hx.B(self), minLen, minIDm, mem, ps, string(target), q)
}

// self comparison where Optimise falls back to very short seeds (k=4, n=12, e=2, TubeOffset=34):
// the tube next to the main-diagonal tube starts (L mod 34) diagonals from the main diagonal, so
// sweeping L sweeps how close filter hits come to the trivial self match
func c15NearDiagonal(g *hx.Gen, r int) string {
	L := 34*g.Range(58, 105) + r
	return fmt.Sprintf("pw 1 100 %d 64 - %s -", g.Pick(700, 700, 720), string(g.Letters("acgt", L)))
}

// pt: a repeat family on hand-made narrow trapezoids.  X occurs in both sequences (diagonal dX); a second
// target region Z consists of the last s letters of X followed by W, and the query continues X with W, so
// the pair (Z, end of X + W) lies on another diagonal and its query rows begin inside X's.  X's diagonal carries
// two or three trapezoids (as after a split by expiry or clipping), Z's one, which in ascending Bottom comes
// between them: the hit found from X's first trapezoid covers X's later ones, and the aligner must still
// align Z's.
func c15FamilyWorkload(g *hx.Gen) string {
	minLen := g.Pick(100, 120, 150)
	minIDm := g.Pick(850, 900, 940)
	Lx := g.Range(350, 600)
	X := g.Letters("acgt", Lx)
	W := g.Letters("acgt", g.Range(minLen+30, 250))
	s := g.Range(minLen/2, 200)
	if s > Lx-150 {
		s = Lx - 150
	}
	Z := append(append([]byte{}, X[Lx-s:]...), W...)
	a0, b0 := g.Range(50, 400), g.Range(50, 400)
	j1 := g.Range(100, 400)
	var target, query []byte
	target = append(target, g.Letters("acgt", a0)...)
	target = append(target, X...)
	target = append(target, g.Letters("acgt", j1)...)
	tZ := len(target)
	target = append(target, Z...)
	target = append(target, g.Letters("acgt", g.Range(50, 300))...)
	query = append(query, g.Letters("acgt", b0)...)
	query = append(query, X...)
	query = append(query, W...)
	query = append(query, g.Letters("acgt", g.Range(50, 300))...)
	qZ := b0 + Lx - s
	dX, dZ := b0-a0, qZ-tZ
	type trap struct{ top, bottom, left, right int }
	h := g.Range(1, 3)
	var traps []trap
	// X's first trapezoid
	bot0 := b0 + g.Range(0, 40)
	traps = append(traps, trap{bot0 + g.Range(30, 100), bot0, dX - h, dX + h})
	// Z's trapezoid: starts a little after Z's first query row
	bot1 := qZ + g.Range(0, 15)
	traps = append(traps, trap{bot1 + g.Range(40, len(Z)-40), bot1, dZ - h, dZ + h})
	// X's later trapezoids, inside X's rows, after bot1
	nLater := g.Pick(0, 1, 1, 2)
	bot := bot1
	for i := 0; i < nLater; i++ {
		bot += g.Range(1, 25)
		top := bot + g.Range(20, 60)
		if top > b0+Lx {
			top = b0 + Lx
		}
		if top-bot < 16 {
			break
		}
		traps = append(traps, trap{top, bot, dX - h, dX + h})
	}
	ts := make([]string, len(traps))
	for i, t := range traps {
		ts[i] = fmt.Sprintf("%d:%d:%d:%d", t.top, t.bottom, t.left, t.right)
	}
	plants := fmt.Sprintf("%d:%d:%d:%d:0;%d:%d:%d:%d:0", a0, Lx, b0, Lx, tZ, len(Z), qZ, len(Z))
	return fmt.Sprintf("pt %d %d %s %s %s %s", minLen, minIDm, plants, strings.Join(ts, ";"), string(target), string(query))
}

// self comparison with an inverted repeat whose arms are mirror images about the sequence centre: copy at
// [a,a+L), reverse-complemented copy at [b,b+L) with a+b+L = len + delta; for delta = 0 the pair lies on the
// main diagonal of the complement comparison and is reported with identical A and B coordinates (which on that
// strand does not mean "the same region"); delta = +-1, +-7 are the near-mirrored controls
func c15MirrorWorkload(g *hx.Gen) string {
	n := g.Range(2000, g.Scale(5000, 12000))
	minLen := g.Pick(100, 120, 150, 200)
	minIDm := g.Pick(750, 800, 850, 900, 940)
	L := g.Range(minLen+30, 400)
	delta := g.Pick(0, 0, 0, 0, 1, -1, 7, -7)
	amax := (n + delta - 2*L - 50) / 2
	a := g.Range(0, amax)
	if g.Chance(0.1) {
		a = 0
	}
	b := n + delta - a - L
	target := g.Letters("acgt", n)
	rep := g.Letters("acgt", L)
	cp := append([]byte{}, rep...)
	if g.Chance(0.5) {
		allowed := int(float64(L) * (1 - float64(minIDm)/1000) / 3)
		cp = c15Mutate(g, rep, g.Range(0, allowed), 0)
	}
	cp = c15RevComp(cp)
	copy(target[a:], rep)
	copy(target[b:], cp)
	return fmt.Sprintf("pw 1 %d %d 64 %d:%d:%d:%d:1 %s -", minLen, minIDm, a, L, b, L, string(target))
}

// a repeat family: one segment with several exact copies, so that different pairs share one side and their
// alignments end on exactly the same target coordinate.  Two sequences: one copy in the target, 2-3 in the
// query (all on the same strand); self comparison: 3 forward copies, i.e. the pairs 1-2, 1-3, 2-3.
// Recall is demanded for every pair.
func c15CopiesWorkload(g *hx.Gen) string {
	self := g.Chance(0.4)
	minLen := g.Pick(100, 120, 150)
	minIDm := g.Pick(800, 850, 900, 940)
	L := g.Range(minLen+30, 300)
	rep := g.Letters("acgt", L)
	place := func(seq []byte, m int, s []byte) []int {
		// m non-overlapping positions, at least 60 letters apart
		for try := 0; try < 200; try++ {
			var ps []int
			ok := true
			for i := 0; i < m && ok; i++ {
				p := g.Intn(len(seq) - len(s))
				for _, q := range ps {
					if p < q+len(s)+60 && q < p+len(s)+60 {
						ok = false
					}
				}
				ps = append(ps, p)
			}
			if ok {
				sort.Ints(ps)
				for _, p := range ps {
					copy(seq[p:], s)
				}
				return ps
			}
		}
		return nil
	}
	var plants []string
	if self {
		target := g.Letters("acgt", g.Range(2500, g.Scale(5000, 12000)))
		ps := place(target, 3, rep)
		if ps == nil {
			return ""
		}
		for i := 0; i < 3; i++ {
			for j := i + 1; j < 3; j++ {
				plants = append(plants, fmt.Sprintf("%d:%d:%d:%d:0", ps[i], L, ps[j], L))
			}
		}
		return fmt.Sprintf("pw 1 %d %d 64 %s %s -", minLen, minIDm, strings.Join(plants, ";"), string(target))
	}
	target := g.Letters("acgt", g.Range(2000, g.Scale(5000, 12000)))
	query := g.Letters("acgt", g.Range(2500, g.Scale(5000, 12000)))
	tp := place(target, 1, rep)
	comp := 0
	cp := rep
	if g.Chance(0.4) {
		comp = 1
		cp = c15RevComp(rep)
	}
	qs := place(query, g.Pick(2, 2, 3), cp)
	if tp == nil || qs == nil {
		return ""
	}
	for _, q := range qs {
		plants = append(plants, fmt.Sprintf("%d:%d:%d:%d:%d", tp[0], L, q, L, comp))
	}
	return fmt.Sprintf("pw 0 %d %d 64 %s %s %s", minLen, minIDm, strings.Join(plants, ";"), string(target), string(query))
}

// a decoy right at the length boundary (unlisted: it must not be reported): one copy 1-3 letters longer than the
// minimum hit length, the other copy the same segment with 2-7 letters deleted (one to four deletions of 1-3
// letters, at least 12 letters apart and 15 from either end), so that it is shorter than the minimum on that side
// only while the identity stays above the minimum (error 5d/(4*long) resp. d/short, at most 0.09).  shortInTarget:
// the target copy is the short one.  An aligner that enforces the minimum length on one sequence only reports it
// (seeded change C15-m1: the target-side test reads lowEnd.Abpos, which is always 0).
func c15LengthDecoyWorkload(g *hx.Gen, shortInTarget bool) string {
	minLen := g.Pick(100, 120, 150)
	minIDm := g.Pick(850, 900)
	long := minLen + g.Range(1, 3)
	short := minLen - g.Range(1, 4)
	d := long - short
	if d > 7 {
		d = 7
		short = long - d
	}
	seg := g.Letters("acgt", long)
	// deletions: widths summing to d
	var widths []int
	for left := d; left > 0; {
		w := g.Range(2, 3) // at most four pieces
		if w > left {
			w = left
		}
		widths = append(widths, w)
		left -= w
	}
	// positions in the long copy, ascending, >= 12 apart, >= 15 from the ends
	cp := append([]byte{}, seg...)
	room := long - 30 - 3
	step := room / len(widths)
	var cuts []int
	for i := range widths {
		cuts = append(cuts, 15+i*step+g.Intn(step-12+1))
	}
	for i := len(cuts) - 1; i >= 0; i-- {
		cp = append(cp[:cuts[i]], cp[cuts[i]+widths[i]:]...)
	}
	self := g.Chance(0.25)
	target := g.Letters("acgt", g.Range(2000, g.Scale(4000, 12000)))
	var query []byte
	if !self {
		query = g.Letters("acgt", g.Range(2000, g.Scale(4000, 12000)))
	}
	tcopy, qcopy := seg, cp
	if shortInTarget {
		tcopy, qcopy = cp, seg
	}
	comp := g.Chance(0.4)
	if comp {
		qcopy = c15RevComp(qcopy)
	}
	qseq := query
	if self {
		qseq = target
	}
	a := g.Intn(len(target) - len(tcopy))
	b := g.Intn(len(qseq) - len(qcopy))
	if self {
		// two disjoint places, the target-side copy first
		a = g.Intn(len(target)/2 - len(tcopy))
		b = len(target)/2 + g.Intn(len(target)/2-len(qcopy))
	}
	copy(target[a:], tcopy)
	copy(qseq[b:], qcopy)
	q := "-"
	if !self {
		q = string(query)
	}
	return fmt.Sprintf("pw %s %d %d 64 - %s %s", hx.B(self), minLen, minIDm, string(target), q)
}

func c15GenOptimise(g *hx.Gen) {
	n := g.Scale(3000, 100000)
	for i := 0; i < n && !g.Done(); i++ {
		// log-uniform target length 64 .. ~4e6
		tlen := int(64 * math.Pow(2, 16*g.Float64()))
		qlen := 0
		if g.Chance(0.5) {
			qlen = int(64 * math.Pow(2, 16*g.Float64()))
		}
		minLen := g.Pick(5, 8, 12, 20, 50, 100, 150, 200, 400, 1000, 2000)
		if g.Chance(0.3) {
			minLen = g.Range(5, 600)
		}
		minID := g.Pick(0, 100000, 500000, 700000, 800000, 850000, 900000, 940000, 990000, 1000000)
		if g.Chance(0.3) {
			minID = g.Intn(1000001)
		}
		mem := g.Pick(0, 0, 1, 16, 64, 512, 8192)
		off := g.Pick(0, 0, 0, 16, 32, 100)
		g.Casef("po %d %d %d %d %d %d", tlen, qlen, minLen, minID, mem, off)
	}
}

func c15Gen(g *hx.Gen) {
	c15GenOptimise(g)
	n := g.Scale(300, 2000)
	for i := 0; i < n && !g.Done(); i++ {
		if i%10 == 7 {
			g.Case(c15FamilyWorkload(g))
			continue
		}
		if i%10 == 2 {
			g.Case(c15MirrorWorkload(g))
			continue
		}
		if i%10 == 1 {
			g.Case(c15LengthDecoyWorkload(g, (i/10)%3 != 2))
			continue
		}
		if i%10 == 5 {
			if w := c15CopiesWorkload(g); w != "" {
				g.Case(w)
				continue
			}
		}
		if i%5 == 4 {
			res := []int{29, 30, 31, 32, 33, 0, 28, 1}
			r := res[(i/5)%len(res)]
			if g.Thorough() {
				r = (i / 5) % 34
			}
			g.Case(c15NearDiagonal(g, r))
			continue
		}
		g.Case(c15Workload(g))
	}
}

func c15Shrink(input string) []string {
	f := hx.Fields(input)
	if len(f) != 8 || f[0] != "pw" {
		return nil
	}
	// drop the plants (soundness failures do not need them)
	if f[5] != "-" {
		return []string{strings.Join([]string{f[0], f[1], f[2], f[3], f[4], "-", f[6], f[7]}, " ")}
	}
	return nil
}

// ---- regenerated facts: the PALS cost constants, and fingerprints of the modelled decision logic ----

func c15FuncFingerprint(fset *token.FileSet, file *ast.File, name string) (string, error) {
	for _, d := range file.Decls {
		fd, ok := d.(*ast.FuncDecl)
		if !ok || fd.Name.Name != name {
			continue
		}
		var sb strings.Builder
		if err := printer.Fprint(&sb, fset, fd); err != nil {
			return "", err
		}
		// whitespace-insensitive
		norm := strings.Join(strings.Fields(sb.String()), " ")
		return fmt.Sprintf("%x", sha256.Sum256([]byte(norm)))[:16], nil
	}
	return "", fmt.Errorf("function %s not found", name)
}

// c15MethodFingerprint is c15FuncFingerprint for a method, looked up by the name of its receiver type
func c15MethodFingerprint(fset *token.FileSet, file *ast.File, recv, name string) (string, error) {
	for _, d := range file.Decls {
		fd, ok := d.(*ast.FuncDecl)
		if !ok || fd.Name.Name != name || fd.Recv == nil || len(fd.Recv.List) != 1 {
			continue
		}
		t := fd.Recv.List[0].Type
		if st, isStar := t.(*ast.StarExpr); isStar {
			t = st.X
		}
		id, isID := t.(*ast.Ident)
		if !isID || id.Name != recv {
			continue
		}
		var sb strings.Builder
		if err := printer.Fprint(&sb, fset, fd); err != nil {
			return "", err
		}
		norm := strings.Join(strings.Fields(sb.String()), " ")
		return fmt.Sprintf("%x", sha256.Sum256([]byte(norm)))[:16], nil
	}
	return "", fmt.Errorf("method %s.%s not found", recv, name)
}

func palsConstFacts(repo string) (string, error) {
	fset := token.NewFileSet()
	path := filepath.Join(repo, "align", "pals", "pals.go")
	file, err := parser.ParseFile(fset, path, nil, 0)
	if err != nil {
		return "", err
	}
	// type-check only the constant declarations: evaluate them with go/types on a reduced file
	var constDecls []ast.Decl
	for _, d := range file.Decls {
		if gd, ok := d.(*ast.GenDecl); ok && gd.Tok == token.CONST {
			constDecls = append(constDecls, gd)
		}
	}
	reduced := &ast.File{Name: ast.NewIdent("pals"), Decls: constDecls}
	conf := types.Config{Importer: importer.Default(), Error: func(error) {}}
	pkg, _ := conf.Check("pals", fset, []*ast.File{reduced}, nil)
	if pkg == nil {
		return "", fmt.Errorf("cannot evaluate constants of pals.go")
	}
	var sb strings.Builder
	sb.WriteString("namespace Biogo.Generated.Pals\n\n")
	for _, name := range []string{"MaxIGap", "DiffCost", "SameCost", "MatchCost", "BlockCost", "RMatchCost"} {
		obj := pkg.Scope().Lookup(name)
		c, ok := obj.(*types.Const)
		if !ok {
			return "", fmt.Errorf("constant %s not found in pals.go", name)
		}
		v := c.Val()
		if v.Kind() == constant.Float {
			// RMatchCost = float64(DiffCost)+1 : must be integral
			f, _ := constant.Float64Val(v)
			if f != math.Trunc(f) {
				return "", fmt.Errorf("constant %s = %v is not integral", name, f)
			}
			fmt.Fprintf(&sb, "def %s : Int := %d\n", name, int64(f))
			continue
		}
		i, exact := constant.Int64Val(v)
		if !exact {
			return "", fmt.Errorf("constant %s is not an int64", name)
		}
		fmt.Fprintf(&sb, "def %s : Int := %d\n", name, i)
	}
	// the defaults handed to dp must be the constants themselves
	ok := false
	ast.Inspect(file, func(n ast.Node) bool {
		vs, isVS := n.(*ast.ValueSpec)
		if !isVS || len(vs.Names) != 1 || vs.Names[0].Name != "defaultCosts" || len(vs.Values) != 1 {
			return true
		}
		cl, isCL := vs.Values[0].(*ast.CompositeLit)
		if !isCL {
			return true
		}
		good := 0
		for _, e := range cl.Elts {
			kv, isKV := e.(*ast.KeyValueExpr)
			if !isKV {
				return true
			}
			k, _ := kv.Key.(*ast.Ident)
			v, _ := kv.Value.(*ast.Ident)
			if k != nil && v != nil && k.Name == v.Name {
				good++
			}
		}
		ok = good == 6 && len(cl.Elts) == 6
		return false
	})
	if !ok {
		return "", fmt.Errorf("defaultCosts no longer maps every field to the constant of the same name")
	}
	// fingerprints of the decision logic that is modelled as pure functions
	for _, t := range []struct{ file, fn, lean string }{
		{"align/pals/dp/kernel.go", "alignRecursion", "fpAlignRecursion"},
		{"align/pals/dp/align.go", "AlignTraps", "fpAlignTraps"},
		{"align/pals/dp/kernel.go", "traceForward", "fpTraceForward"},
		{"align/pals/dp/kernel.go", "traceReverse", "fpTraceReverse"},
	} {
		fs2 := token.NewFileSet()
		f2, err := parser.ParseFile(fs2, filepath.Join(repo, filepath.FromSlash(t.file)), nil, 0)
		if err != nil {
			return "", err
		}
		fp, err := c15FuncFingerprint(fs2, f2, t.fn)
		if err != nil {
			return "", err
		}
		fmt.Fprintf(&sb, "def %s : String := %q\n", t.lean, fp)
	}
	// the two orders the suppression of AlignTraps sorts by (the model sorts by both coordinates)
	for _, t := range []struct{ recv, lean string }{{"starts", "fpStartsLess"}, {"ends", "fpEndsLess"}} {
		fs2 := token.NewFileSet()
		f2, err := parser.ParseFile(fs2, filepath.Join(repo, "align", "pals", "dp", "sort.go"), nil, 0)
		if err != nil {
			return "", err
		}
		fp, err := c15MethodFingerprint(fs2, f2, t.recv, "Less")
		if err != nil {
			return "", err
		}
		fmt.Fprintf(&sb, "def %s : String := %q\n", t.lean, fp)
	}
	sb.WriteString("\nend Biogo.Generated.Pals\n")
	return sb.String(), nil
}

func init() {
	hx.Register(&hx.Prop{ID: "C15", Part: "pipeline", Ops: []string{"pw", "po", "pt"}, Weight: 3, Gen: c15Gen, Exec: c15Exec, Shrink: c15Shrink, Timeout: 120 * time.Second})
	hx.RegisterFacts(hx.FactGen{File: "PalsConsts.lean", Gen: palsConstFacts})
}
