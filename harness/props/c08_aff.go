package props

// C08 / C09, part "aff" — the affine-gap aligners NWAffine, SWAffine, FittedAffine.
//
// Input (one line, space separated)
//   <op> <ralpha> <qalpha> <rtype> <qtype> <open> <matrix> <rhex> <qhex>
//     op      nwaff | swaff | fitaff
//     alpha   name of a built-in alphabet, or "none" (nil alphabet)
//     type    l (alphabet.Letters) | q (alphabet.QLetters)
//     matrix  rows separated by ';', entries by ',' ("-" = no rows)
//     hex     the letters of the sequence
// Observation
//   ok <pairs> tq=<1|0|x> f=<hex row0>:<hex row1>     pairs: rs-re:qs-qe:score,…
//        tq: the other slice type (QLetters for Letters and vice versa) gives the same pairs
//        f : the two rows of align.Format (Letters only, else x)
//   err:<kind>

import (
	"fmt"
	"strconv"
	"strings"

	"github.com/biogo/biogo/align"
	"github.com/biogo/biogo/alphabet"
	"github.com/biogo/biogo/feat"

	"verif/harness/hx"
)

// affSeq is a sequence object; the executor hands the aligner a pointer to it, so that the
// warm-up call and the real call of a case use the same object.
type affSeq struct {
	a alphabet.Alphabet
	s alphabet.Slice
}

func (s *affSeq) Alphabet() alphabet.Alphabet { return s.a }
func (s *affSeq) Slice() alphabet.Slice       { return s.s }
func (s *affSeq) SetSlice(sl alphabet.Slice)  {}

// warm makes the object hold, in place, what the warm-up call is to see (c08_history.go: the
// case's letters, their first half, or all of the stretched backing array) and returns the
// function that restores the case's slice.
func (s *affSeq) warm(seqs int) (restore func()) {
	own := s.s
	switch sl := own.(type) {
	case alphabet.Letters:
		s.s = sl[:alnWarmLen(seqs, len(sl), cap(sl))]
	case alphabet.QLetters:
		s.s = sl[:alnWarmLen(seqs, len(sl), cap(sl))]
	}
	return func() { s.s = own }
}

func affAlphabet(name string) alphabet.Alphabet {
	if name == "none" {
		return nil
	}
	return builtinByName(name)
}

// affSlice returns the letters as the first len(letters) elements of a longer backing array
// (alnStretched); only a warm-up call ever sees the rest.
func affSlice(typ string, letters []byte) alphabet.Slice {
	n := len(letters)
	letters = alnStretched(letters)
	if typ == "q" {
		ql := make(alphabet.QLetters, len(letters))
		for i, b := range letters {
			ql[i] = alphabet.QLetter{L: alphabet.Letter(b), Q: alphabet.Qphred((i*7 + 3) % 41)}
		}
		return ql[:n]
	}
	return alphabet.Letters(alphabet.BytesToLetters(letters))[:n]
}

func affMatrix(s string) align.Linear {
	if s == "-" {
		return align.Linear{}
	}
	var m align.Linear
	for _, row := range strings.Split(s, ";") {
		m = append(m, hx.ParseInts(row))
	}
	return m
}

func affErrKind(err error) string {
	switch err {
	case align.ErrMismatchedTypes:
		return "err:types"
	case align.ErrMismatchedAlphabets:
		return "err:alphabets"
	case align.ErrNoAlphabet:
		return "err:noalphabet"
	case align.ErrNotGappedAlphabet:
		return "err:nogap"
	case align.ErrTypeNotHandled:
		return "err:typenothandled"
	case align.ErrMatrixNotSquare:
		return "err:notsquare"
	}
	if _, ok := err.(align.ErrMatrixWrongSize); ok {
		return "err:size"
	}
	s := err.Error()
	if strings.HasPrefix(s, "align: illegal letter ") {
		// align: illegal letter %q at position %d in rSeq
		f := strings.Fields(s)
		if len(f) >= 3 {
			which := "r"
			if f[len(f)-1] == "qSeq" {
				which = "q"
			}
			return "err:letter:" + which + ":" + f[len(f)-3]
		}
	}
	return "err:other:" + hx.Hex([]byte(s))
}

func affAligner(op string, m align.Linear, open int) align.Aligner {
	switch op {
	case "nwaff":
		return align.NWAffine{Matrix: m, GapOpen: open}
	case "swaff":
		return align.SWAffine{Matrix: m, GapOpen: open}
	case "fitaff":
		return align.FittedAffine{Matrix: m, GapOpen: open}
	}
	panic("aff: bad op " + op)
}

func affPairs(ps []feat.Pair) string {
	if len(ps) == 0 {
		return "-"
	}
	parts := make([]string, len(ps))
	for i, p := range ps {
		f := p.Features()
		parts[i] = strconv.Itoa(f[0].Start()) + "-" + strconv.Itoa(f[0].End()) + ":" +
			strconv.Itoa(f[1].Start()) + "-" + strconv.Itoa(f[1].End()) + ":" + strconv.Itoa(p.(interface{ Score() int }).Score())
	}
	return strings.Join(parts, ",")
}

// affRun makes one Align call with the aligner value al on fresh sequence objects.
func affRun(al align.Aligner, ra, qa alphabet.Alphabet, rt, qt string, rb, qb []byte) (string, []feat.Pair, *affSeq, *affSeq) {
	rs := &affSeq{ra, affSlice(rt, rb)}
	qs := &affSeq{qa, affSlice(qt, qb)}
	obs, ps := affAlign(al, rs, qs)
	return obs, ps, rs, qs
}

func affAlign(al align.Aligner, rs, qs *affSeq) (string, []feat.Pair) {
	ps, err := al.Align(rs, qs)
	if err != nil {
		return affErrKind(err), nil
	}
	return "ok " + affPairs(ps), ps
}

func affExec(input string) string {
	f := hx.Fields(input)
	if len(f) != 9 {
		panic("aff: bad input " + input)
	}
	op, rt, qt := f[0], f[3], f[4]
	ra, qa := affAlphabet(f[1]), affAlphabet(f[2])
	open := hx.Atoi(f[5])
	want := affMatrix(f[6])
	rb, qb := hx.Unhex(f[7]), hx.Unhex(f[8])
	rs := &affSeq{ra, affSlice(rt, rb)}
	qs := &affSeq{qa, affSlice(qt, qb)}
	// Usage history (c08_history.go): half of the cases first make a warm-up call with the same
	// matrix object holding other numbers, the same aligner value and the same sequence
	// objects, then overwrite the matrix in place with the case's; the property is per call,
	// so the observation must not depend on it.
	var al align.Aligner
	if hist := alnHistoryOf(input); hist.warm {
		obj := newAlnMatrixObject(want, hist.shape)
		al = affAligner(op, obj.warmup(), open)
		rr, rq := rs.warm(hist.seqs), qs.warm(hist.seqs)
		alnQuiet(func() { al.Align(rs, qs) })
		rr()
		rq()
		m := obj.settle()
		if hist.shape != 0 || len(want) == 0 {
			// another number of rows: the aligner value holds the slice header, so it is re-made
			// around the same backing arrays; for shape 0 the same aligner value is re-used
			al = affAligner(op, m, open)
		}
	} else {
		al = affAligner(op, want, open)
	}
	obs, ps := affAlign(al, rs, qs)
	if ps == nil {
		return obs
	}
	tq := "x"
	if rt == qt {
		other := "q"
		if rt == "q" {
			other = "l"
		}
		obs2, _, _, _ := affRun(al, ra, qa, other, other, rb, qb)
		tq = hx.B(obs2 == obs)
	}
	fr := "x"
	if rt == "l" && qt == "l" {
		gap := alphabet.Letter('-')
		if ra != nil {
			gap = ra.Gap()
		}
		rows := align.Format(rs, qs, ps, gap)
		fr = hx.Hex(alphabet.LettersToBytes(rows[0].(alphabet.Letters))) + ":" + hx.Hex(alphabet.LettersToBytes(rows[1].(alphabet.Letters)))
	}
	return obs + " tq=" + tq + " f=" + fr
}

// ---- generator ------------------------------------------------------------------------

var affOps = []string{"nwaff", "swaff", "fitaff"}

// matrixString renders an n×n matrix given by a function.
func affMatrixString(n int, f func(i, j int) int) string {
	rows := make([]string, n)
	for i := 0; i < n; i++ {
		xs := make([]int, n)
		for j := 0; j < n; j++ {
			xs[j] = f(i, j)
		}
		rows[i] = hx.Ints(xs)
	}
	return strings.Join(rows, ";")
}

// the family of 5×5 matrices (DNAgapped: - a c g t) used for the bounded-exhaustive part
func affFamily() []string {
	simple := func(match, mismatch, gr, gq int) func(i, j int) int {
		return func(i, j int) int {
			switch {
			case i == 0 && j == 0:
				return 0
			case j == 0:
				return gr
			case i == 0:
				return gq
			case i == j:
				return match
			}
			return mismatch
		}
	}
	fam := []func(i, j int) int{
		simple(1, -1, -1, -1),   // unit costs
		simple(2, -3, -1, -1),   // mismatch dearer than two gap letters
		simple(0, 0, 0, 0),      // ties everywhere
		simple(1, -1, 0, 0),     // zero gaps
		simple(1, -10, -2, 0),   // extreme mismatch, asymmetric gap scores (K1 witness)
		simple(7, -3, -1, 0),    // F11 witness family
		simple(-1, -2, -1, -1),  // nothing positive
		simple(3, 1, -2, -1),    // positive mismatches
		func(i, j int) int { // asymmetric matrix, letter-dependent gap scores
			t := [5][5]int{
				{0, -1, 0, -2, -1},
				{-2, 2, -1, 1, -3},
				{0, 1, 3, -2, 0},
				{-1, -4, 2, 1, -1},
				{-3, 0, -1, -2, 2},
			}
			return t[i][j]
		},
	}
	var out []string
	for _, f := range fam {
		out = append(out, affMatrixString(5, f))
	}
	return out
}

var affOpens = []int{0, -1, -2, -3, -100}

func affAllSeqs(letters string, maxLen int) [][]byte {
	var out [][]byte
	var rec func(cur []byte)
	rec = func(cur []byte) {
		if len(cur) > 0 {
			out = append(out, append([]byte{}, cur...))
		}
		if len(cur) == maxLen {
			return
		}
		for i := 0; i < len(letters); i++ {
			rec(append(cur, letters[i]))
		}
	}
	rec(nil)
	return out
}

// random matrix over an alphabet of n letters: small entries so that ties are frequent
func affRandMatrix(g *hx.Gen, n int) string {
	style := g.Intn(5)
	sym := g.Chance(0.5)
	span := g.Pick(1, 2, 3, 5, 11)
	gapSpan := g.Pick(0, 1, 2, 4)
	vals := make([][]int, n)
	for i := range vals {
		vals[i] = make([]int, n)
	}
	for i := 0; i < n; i++ {
		for j := 0; j < n; j++ {
			switch {
			case i == 0 && j == 0:
				vals[i][j] = 0
			case i == 0 || j == 0:
				switch style {
				case 0:
					vals[i][j] = -gapSpan
				default:
					vals[i][j] = -g.Intn(gapSpan + 1)
				}
			case i == j:
				vals[i][j] = g.Range(0, span)
				if style == 3 {
					vals[i][j] = g.Range(-span, span)
				}
			default:
				vals[i][j] = g.Range(-span, 0)
				if style == 4 {
					vals[i][j] = g.Range(-2*span, span)
				}
			}
		}
	}
	if sym {
		for i := 0; i < n; i++ {
			for j := 0; j < i; j++ {
				vals[i][j] = vals[j][i]
			}
		}
	}
	return affMatrixString(n, func(i, j int) int { return vals[i][j] })
}

type affAlpha struct {
	name    string
	letters string // letters used for random sequences (no gap letter)
	n       int
}

var affAlphas = []affAlpha{
	{"DNAgapped", "acgt", 5},
	{"DNAgapped", "acgtACGT", 5},
	{"DNAredundant", "acmgrsvtwyhkdbn", 16},
	{"RNAgapped", "acgu", 5},
	{"Protein", "abcdefghijklmnpqrstvxwyz*", 26},
}

func affRandSeq(g *hx.Gen, letters string, n int) []byte {
	// low-complexity and related sequences make gaps and ties likely
	k := g.Pick(2, 3, len(letters))
	if k > len(letters) {
		k = len(letters)
	}
	off := g.Intn(len(letters) - k + 1)
	return g.Letters(letters[off:off+k], n)
}

func affMutate(g *hx.Gen, letters string, s []byte) []byte {
	out := make([]byte, 0, len(s)+4)
	for _, b := range s {
		switch g.Intn(12) {
		case 0: // deletion
		case 1: // insertion
			out = append(out, b, letters[g.Intn(len(letters))])
		case 2: // substitution
			out = append(out, letters[g.Intn(len(letters))])
		default:
			out = append(out, b)
		}
	}
	if len(out) == 0 {
		out = append(out, letters[g.Intn(len(letters))])
	}
	return out
}

func affExhaustive(g *hx.Gen, letters string, maxLen int, fam []string, opens []int) {
	seqs := affAllSeqs(letters, maxLen)
	for _, r := range seqs {
		for _, q := range seqs {
			for _, m := range fam {
				for _, o := range opens {
					for _, op := range affOps {
						if g.Done() {
							return
						}
						g.Casef("%s DNAgapped DNAgapped l l %d %s %s %s", op, o, m, hx.Hex(r), hx.Hex(q))
					}
				}
			}
		}
	}
}

func affRandomCase(g *hx.Gen, maxLen int) string {
	al := affAlphas[g.Intn(len(affAlphas))]
	n := g.Pick(1, 2, 3, 5, 8, 13, 30, maxLen/2, maxLen)
	if n < 1 {
		n = 1
	}
	r := affRandSeq(g, al.letters, g.Range(1, n))
	var q []byte
	if g.Chance(0.6) {
		q = affMutate(g, al.letters, r)
		if g.Chance(0.3) && len(q) > 2 { // a fragment, for the fitted and local aligners
			a := g.Intn(len(q) - 1)
			b := g.Range(a+1, len(q))
			q = q[a:b]
		}
	} else {
		q = affRandSeq(g, al.letters, g.Range(1, n))
	}
	size := al.n
	if g.Chance(0.1) {
		size += g.Range(1, 3) // a larger matrix is accepted
	}
	t := "l"
	if g.Chance(0.35) {
		t = "q"
	}
	open := g.Pick(0, -1, -2, -3, -5, -11, -100)
	return fmt.Sprintf("%s %s %s %s %s %d %s %s %s", affOps[g.Intn(3)], al.name, al.name, t, t, open,
		affRandMatrix(g, size), hx.Hex(r), hx.Hex(q))
}

func c08AffGen(g *hx.Gen) {
	fam := affFamily()
	// bounded-exhaustive core: every pair over {a,c} up to length 3 with the whole family and
	// every gap-open value; every pair over {a,c,g} up to length 2 with three matrices
	affExhaustive(g, "ac", 3, fam, affOpens)
	affExhaustive(g, "acg", 2, []string{fam[0], fam[4], fam[8]}, affOpens)
	// random pairs (related, unrelated, fragments) over four alphabets
	n := g.Scale(6000, 60000)
	for k := 0; k < n && !g.Done(); k++ {
		g.Case(affRandomCase(g, g.Scale(60, 200)))
	}
	// wider bounded-exhaustive domains, as far as the budget goes
	if !g.Thorough() {
		affExhaustive(g, "acg", 3, []string{fam[4], fam[8]}, []int{0, -2, -100})
		return
	}
	affExhaustive(g, "ac", 4, fam, affOpens)
	affExhaustive(g, "acg", 3, []string{fam[0], fam[4], fam[8]}, affOpens)
	affExhaustive(g, "ac", 5, []string{fam[4], fam[5], fam[8]}, []int{0, -2})
	affExhaustive(g, "acg", 4, []string{fam[4], fam[8]}, []int{0, -2})
}

func affShrink(input string) []string {
	f := hx.Fields(input)
	if len(f) != 9 {
		return nil
	}
	var out []string
	for _, k := range []int{7, 8} {
		b := hx.Unhex(f[k])
		for i := range b {
			if len(b) == 1 {
				break
			}
			nb := append(append([]byte{}, b[:i]...), b[i+1:]...)
			g := append([]string{}, f...)
			g[k] = hx.Hex(nb)
			out = append(out, strings.Join(g, " "))
		}
	}
	return out
}

func init() {
	hx.Register(&hx.Prop{ID: "C08", Part: "aff", Ops: affOps, Gen: c08AffGen, Exec: affExec, Shrink: affShrink})
}
