package props

// C06 — sequtils: Truncate, Join, Stitch, Compose, Trim follow positional semantics.
//
// A sequence is written  <kind> <alpha> <conf> <offset> <data>
//   kind  s = *linear.Seq, q = *linear.QSeq, p = a harness type that is Sliceable and has a
//             conformation but is not a SliceReverser (Compose must refuse reverse features)
//   alpha name of an entry of c06Alphabets (complementing or not)
//   conf  -1 undefined, 0 linear, 1 circular (feat.Conformation)
//   data  hex; one byte per letter for s/p, two bytes (L,Q) per letter for q
//
// Inputs
//   tr <seq> <same> <start> <end>          Truncate(dst, src, start, end)
//   st <seq> <same> <feats>                Stitch(dst, src, feats)
//   co <seq> <same> <feats>                Compose(dst, src, feats)
//   jn <kind> <alpha> <where> <same> <dconf> <doffset> <ddata> <sconf> <soffset> <sdata>   Join(dst, src, where)
//   td <start> <k> <limit> <e0,e1,...>     Trim on a harness QualityFeature at [start,start+n) whose
//                                          EAt(i) = e_i / 2^k and limit = limit / 2^k (exact dyadics)
//   tq <offset> <hex Q bytes> <num> <den>  Trim on a real *linear.QSeq with Phred scores Q, limit = num/den
//   same: 1 dst == src; 0 dst is a fresh empty object; 2 dst is another, populated, circular object
//   feats: s:e:o,s:e:o,...  (o = -1 reverse, 0 not oriented, 1 forward; "-" = no feature)
//
// Observations
//   tr/st/co/jn:  ok <dst data> <dst Start> <dst conf> <src data after> <src Start> <src conf> <src data after mutating dst> <pads>
//                 err:<code> <src data after> <src Start> <src conf> <pads>
//       "src data" is read from the region of the caller's buffer that held src's letters at the
//       time of the call (so it is meaningful when dst == src too); pads = 1 iff the sentinel bytes
//       around that region (spare capacity included) are untouched.
//   td/tq:        <start> <end>

import (
	"crypto/sha256"
	"encoding/hex"
	"fmt"
	"go/ast"
	"go/parser"
	"go/printer"
	"go/token"
	"path/filepath"
	"strconv"
	"strings"

	"github.com/biogo/biogo/alphabet"
	"github.com/biogo/biogo/feat"
	"github.com/biogo/biogo/seq"
	"github.com/biogo/biogo/seq/linear"
	"github.com/biogo/biogo/seq/sequtils"

	"verif/harness/hx"
)

var c06Plain = alphabet.Must(alphabet.NewAlphabet("acgt", feat.DNA, '-', 'n', false))

var c06Alphabets = []struct {
	name string
	a    alphabet.Alphabet
}{
	{"DNA", alphabet.DNA},
	{"DNAredundant", alphabet.DNAredundant},
	{"RNA", alphabet.RNA},
	{"Protein", alphabet.Protein},
	{"plainacgt", c06Plain},
}

func c06Alpha(n string) alphabet.Alphabet {
	for _, b := range c06Alphabets {
		if b.name == n {
			return b.a
		}
	}
	panic("c06: unknown alphabet " + n)
}

// ---- harness types ---------------------------------------------------------------------

// c06PlainSeq is Sliceable/Joinable with a conformation, but cannot reverse.
type c06PlainSeq struct {
	sl     alphabet.Letters
	offset int
	conf   feat.Conformation
}

func (p *c06PlainSeq) Start() int                                { return p.offset }
func (p *c06PlainSeq) End() int                                  { return p.offset + len(p.sl) }
func (p *c06PlainSeq) SetOffset(o int) error                     { p.offset = o; return nil }
func (p *c06PlainSeq) Slice() alphabet.Slice                     { return p.sl }
func (p *c06PlainSeq) SetSlice(s alphabet.Slice)                 { p.sl = s.(alphabet.Letters) }
func (p *c06PlainSeq) Conformation() feat.Conformation           { return p.conf }
func (p *c06PlainSeq) SetConformation(c feat.Conformation) error { p.conf = c; return nil }

type c06Obj interface {
	sequtils.Sliceable
	Conformation() feat.Conformation
}

type c06Feat struct {
	s, e int
	o    feat.Orientation
	feat.Feature
}

func (f c06Feat) Start() int                    { return f.s }
func (f c06Feat) End() int                      { return f.e }
func (f c06Feat) Len() int                      { return f.e - f.s }
func (f c06Feat) Orientation() feat.Orientation { return f.o }

type c06Set []feat.Feature

func (s c06Set) Features() []feat.Feature { return []feat.Feature(s) }

// c06Dyadic is a QualityFeature with exactly representable error values.
type c06Dyadic struct {
	start int
	e     []float64
	feat.Feature
}

func (d *c06Dyadic) Start() int             { return d.start }
func (d *c06Dyadic) End() int               { return d.start + len(d.e) }
func (d *c06Dyadic) Len() int               { return len(d.e) }
func (d *c06Dyadic) EAt(i int) float64      { return d.e[i-d.start] }
func (d *c06Dyadic) Name() string           { return "dyadic" }
func (d *c06Dyadic) Description() string    { return "" }
func (d *c06Dyadic) Location() feat.Feature { return nil }

const c06Pad = 3
const c06Sentinel = 0xA5

// c06Build makes a sequence whose letters live in the middle of a larger buffer (spare
// capacity behind, foreign bytes in front) and returns a function that reads the buffer back.
func c06Build(kind, alpha string, conf, offset int, data []byte) (obj c06Obj, region func() (string, bool)) {
	a := c06Alpha(alpha)
	ann := seq.Annotation{ID: "s", Alpha: a, Strand: seq.Plus, Offset: offset, Conform: feat.Conformation(conf)}
	switch kind {
	case "s", "p":
		n := len(data)
		buf := make(alphabet.Letters, n+2*c06Pad)
		for i := range buf {
			buf[i] = c06Sentinel
		}
		copy(buf[c06Pad:], alphabet.BytesToLetters(data))
		region = func() (string, bool) {
			ok := true
			for i := 0; i < c06Pad; i++ {
				ok = ok && buf[i] == c06Sentinel && buf[c06Pad+n+i] == c06Sentinel
			}
			return hx.Hex(alphabet.LettersToBytes(buf[c06Pad : c06Pad+n])), ok
		}
		if kind == "s" {
			return &linear.Seq{Annotation: ann, Seq: buf[c06Pad : c06Pad+n]}, region
		}
		return &c06PlainSeq{sl: buf[c06Pad : c06Pad+n], offset: offset, conf: feat.Conformation(conf)}, region
	case "q":
		n := len(data) / 2
		buf := make(alphabet.QLetters, n+2*c06Pad)
		for i := range buf {
			buf[i] = alphabet.QLetter{L: c06Sentinel, Q: c06Sentinel}
		}
		for i := 0; i < n; i++ {
			buf[c06Pad+i] = alphabet.QLetter{L: alphabet.Letter(data[2*i]), Q: alphabet.Qphred(data[2*i+1])}
		}
		region = func() (string, bool) {
			ok := true
			s := alphabet.QLetter{L: c06Sentinel, Q: c06Sentinel}
			for i := 0; i < c06Pad; i++ {
				ok = ok && buf[i] == s && buf[c06Pad+n+i] == s
			}
			return c06QHex(buf[c06Pad : c06Pad+n]), ok
		}
		return &linear.QSeq{Annotation: ann, Seq: buf[c06Pad : c06Pad+n], Threshold: 3, QFilter: seq.AmbigFilter, Encode: alphabet.Sanger}, region
	}
	panic("c06: bad kind " + kind)
}

func c06QHex(q alphabet.QLetters) string {
	b := make([]byte, 0, 2*len(q))
	for _, l := range q {
		b = append(b, byte(l.L), byte(l.Q))
	}
	return hx.Hex(b)
}

// c06Data is the current contents of an object.
func c06Data(o c06Obj) string {
	switch s := o.(type) {
	case *linear.Seq:
		return hx.Hex(alphabet.LettersToBytes(s.Seq))
	case *linear.QSeq:
		return c06QHex(s.Seq)
	case *c06PlainSeq:
		return hx.Hex(alphabet.LettersToBytes(s.sl))
	}
	panic("c06: bad object")
}

// c06Scribble overwrites every element of the object's current slice.
func c06Scribble(o c06Obj) {
	switch s := o.(type) {
	case *linear.Seq:
		for i := range s.Seq {
			s.Seq[i] ^= 0xFF
		}
	case *linear.QSeq:
		for i := range s.Seq {
			s.Seq[i].L ^= 0xFF
			s.Seq[i].Q ^= 0xFF
		}
	case *c06PlainSeq:
		for i := range s.sl {
			s.sl[i] ^= 0xFF
		}
	}
}

func c06Dst(kind, alpha string, same string, src c06Obj) c06Obj {
	switch same {
	case "1":
		return src
	case "0":
		switch kind {
		case "s":
			return &linear.Seq{Annotation: seq.Annotation{Alpha: c06Alpha(alpha)}}
		case "q":
			return &linear.QSeq{Annotation: seq.Annotation{Alpha: c06Alpha(alpha)}}
		case "p":
			return &c06PlainSeq{}
		}
	case "2":
		data := []byte("nnnn")
		if kind == "q" {
			data = []byte("n!n!n!n!")
		}
		o, _ := c06Build(kind, alpha, int(feat.Circular), 99, data)
		return o
	}
	panic("c06: bad dst mode " + same)
}

func c06Err(err error) string {
	s := err.Error()
	switch {
	case strings.Contains(s, "index out of range"):
		return "err:range"
	case strings.Contains(s, "start position greater than end position"):
		return "err:linear"
	case strings.Contains(s, "cannot join circular"):
		return "err:circular"
	case strings.Contains(s, "feature end < feature start"):
		return "err:featorder"
	case strings.Contains(s, "unable to reverse segment"):
		return "err:noreverse"
	}
	return "err:other:" + hx.Hex([]byte(s))
}

func c06ParseFeats(tok string) c06Set {
	var fs c06Set
	if tok == "-" {
		return c06Set{}
	}
	for _, t := range strings.Split(tok, ",") {
		p := strings.Split(t, ":")
		if len(p) != 3 {
			panic("c06: bad feature " + t)
		}
		fs = append(fs, c06Feat{s: hx.Atoi(p[0]), e: hx.Atoi(p[1]), o: feat.Orientation(hx.Atoi(p[2]))})
	}
	return fs
}

func c06Report(err error, dst, src c06Obj, same string, region func() (string, bool)) string {
	after, pads := region()
	if err != nil {
		return fmt.Sprintf("%s %s %d %d %s", c06Err(err), after, src.Start(), src.Conformation(), hx.B(pads))
	}
	out := fmt.Sprintf("ok %s %d %d %s %d %d", c06Data(dst), dst.Start(), dst.Conformation(), after, src.Start(), src.Conformation())
	if same != "1" {
		c06Scribble(dst)
	}
	after2, pads2 := region()
	return out + " " + after2 + " " + hx.B(pads && pads2)
}

func c06Exec(input string) string {
	f := hx.Fields(input)
	switch f[0] {
	case "tr", "st", "co":
		src, region := c06Build(f[1], f[2], hx.Atoi(f[3]), hx.Atoi(f[4]), hx.Unhex(f[5]))
		same := f[6]
		dst := c06Dst(f[1], f[2], same, src)
		var err error
		switch f[0] {
		case "tr":
			err = sequtils.Truncate(dst, src, hx.Atoi(f[7]), hx.Atoi(f[8]))
		case "st":
			err = sequtils.Stitch(dst, src, c06ParseFeats(f[7]))
		case "co":
			err = sequtils.Compose(dst, src, c06ParseFeats(f[7]))
		}
		return c06Report(err, dst, src, same, region)
	case "jn":
		kind, alpha, where, same := f[1], f[2], hx.Atoi(f[3]), f[4]
		dst, _ := c06Build(kind, alpha, hx.Atoi(f[5]), hx.Atoi(f[6]), hx.Unhex(f[7]))
		var src c06Obj
		var region func() (string, bool)
		if same == "1" {
			// the same object on both sides; its buffer is rebuilt so that it can be read back
			dst, region = c06Build(kind, alpha, hx.Atoi(f[5]), hx.Atoi(f[6]), hx.Unhex(f[7]))
			src = dst
		} else {
			src, region = c06Build(kind, alpha, hx.Atoi(f[8]), hx.Atoi(f[9]), hx.Unhex(f[10]))
		}
		err := sequtils.Join(dst.(sequtils.Joinable), src.(sequtils.Joinable), where)
		// Join always builds its result in new storage, so dst is scribbled in every mode
		return c06Report(err, dst, src, "0", region)
	case "td":
		start, k, lim := hx.Atoi(f[1]), hx.Atoi(f[2]), hx.Atoi(f[3])
		den := float64(int64(1) << uint(k))
		var e []float64
		for _, x := range hx.ParseInts(f[4]) {
			e = append(e, float64(x)/den)
		}
		s, en := sequtils.Trim(&c06Dyadic{start: start, e: e}, float64(lim)/den)
		return fmt.Sprintf("%d %d", s, en)
	case "tq":
		qs := hx.Unhex(f[2])
		ql := make([]alphabet.QLetter, len(qs))
		for i, q := range qs {
			ql[i] = alphabet.QLetter{L: 'a', Q: alphabet.Qphred(q)}
		}
		s := linear.NewQSeq("q", ql, alphabet.DNA, alphabet.Sanger)
		s.Offset = hx.Atoi(f[1])
		st, en := sequtils.Trim(s, float64(hx.Atoi(f[3]))/float64(hx.Atoi(f[4])))
		return fmt.Sprintf("%d %d", st, en)
	}
	panic("c06: bad input " + input)
}

// ---- generator -------------------------------------------------------------------------

func c06GenSeq(g *hx.Gen, kind string) (alpha string, conf, offset int, data []byte) {
	a := c06Alphabets[g.Intn(len(c06Alphabets))]
	alpha = a.name
	conf = g.Pick(0, 0, 1, 1, 1, -1)
	offset = g.Pick(0, 0, 1, -1, 2, -3, 5, -7, 10, -12, 1000, -1000)
	n := g.Pick(0, 1, 2, 3, 4, 5, 6, 8, 9, 12, 12, 16, 24)
	pool := a.a.Letters()
	ls := g.Letters(pool, n)
	// unusual letters: other case, letters outside the alphabet
	for j := g.Pick(0, 0, 0, 1, 2); j > 0 && n > 0; j-- {
		ls[g.Intn(n)] = byte(g.Pick('N', 'x', '-', '*', 'Z', 0, 200, 255, 'A', 'c'))
	}
	if kind == "q" {
		data = make([]byte, 0, 2*n)
		for _, l := range ls {
			data = append(data, l, byte(g.Pick(0, 1, 2, 10, 20, 30, 40, 41, 93, 254)))
		}
		return
	}
	return alpha, conf, offset, ls
}

func c06GenFeats(g *hx.Gen, offset, n int) string {
	k := g.Pick(0, 1, 1, 2, 2, 3, 3, 4, 5, 7)
	if k == 0 {
		return "-"
	}
	end := offset + n
	var parts []string
	pos := func() int {
		switch g.Intn(6) {
		case 0:
			return offset + g.Pick(-3, -1, 0, 1)
		case 1:
			return end + g.Pick(-1, 0, 1, 3)
		default:
			return g.Range(offset-2, end+2)
		}
	}
	for i := 0; i < k; i++ {
		s, e := pos(), pos()
		if s > e && !g.Chance(0.04) {
			s, e = e, s
		}
		switch g.Intn(24) {
		case 0: // entirely before
			s, e = offset-g.Range(1, 6), offset-g.Range(0, 1)
			if s > e {
				s, e = e, s
			}
		case 1: // entirely behind
			s = end + g.Range(0, 5)
			e = s + g.Range(0, 4)
		case 2: // covers everything
			s, e = offset-g.Range(0, 3), end+g.Range(0, 3)
		}
		o := g.Pick(-1, -1, 0, 1, 1)
		parts = append(parts, fmt.Sprintf("%d:%d:%d", s, e, o))
	}
	return strings.Join(parts, ",")
}

func c06Kind(g *hx.Gen) string { return []string{"s", "s", "s", "q", "q", "p"}[g.Intn(6)] }

func c06Gen(g *hx.Gen) {
	n := g.Scale(40000, 1000000)
	for k := 0; k < n && !g.Done(); k++ {
		switch g.Intn(10) {
		case 0, 1, 2: // Truncate
			kind := c06Kind(g)
			alpha, conf, offset, data := c06GenSeq(g, kind)
			ln := len(data)
			if kind == "q" {
				ln /= 2
			}
			end := offset + ln
			pos := func() int {
				switch g.Intn(5) {
				case 0:
					return offset + g.Pick(-2, -1, 0, 1)
				case 1:
					return end + g.Pick(-1, 0, 1, 2)
				default:
					return g.Range(offset-1, end+1)
				}
			}
			start, stop := pos(), pos()
			if ln > 0 && g.Chance(0.55) {
				// a request inside the sequence; wrapping through the origin when not linear
				a, b := g.Range(offset, end), g.Range(offset, end)
				if a > b {
					a, b = b, a
				}
				start, stop = a, b
				if conf != 0 && a < b && g.Chance(0.5) {
					start, stop = b, a
				}
			}
			g.Casef("tr %s %s %d %d %s %d %d %d", kind, alpha, conf, offset, hx.Hex(data), g.Pick(0, 1, 1, 2), start, stop)
		case 3, 4: // Stitch
			kind := c06Kind(g)
			alpha, conf, offset, data := c06GenSeq(g, kind)
			ln := len(data)
			if kind == "q" {
				ln /= 2
			}
			g.Casef("st %s %s %d %d %s %d %s", kind, alpha, conf, offset, hx.Hex(data), g.Pick(0, 1, 2), c06GenFeats(g, offset, ln))
		case 5, 6, 7: // Compose
			kind := c06Kind(g)
			alpha, conf, offset, data := c06GenSeq(g, kind)
			ln := len(data)
			if kind == "q" {
				ln /= 2
			}
			g.Casef("co %s %s %d %d %s %d %s", kind, alpha, conf, offset, hx.Hex(data), g.Pick(0, 1, 2), c06GenFeats(g, offset, ln))
		case 8: // Join
			kind := c06Kind(g)
			alpha, dconf, doff, ddata := c06GenSeq(g, kind)
			_, sconf, soff, sdata := c06GenSeq(g, kind)
			if g.Chance(0.8) {
				dconf, sconf = g.Pick(0, 0, -1), g.Pick(0, 0, -1)
			}
			same := g.Pick(0, 0, 0, 1)
			if same == 1 {
				sconf, soff, sdata = dconf, doff, ddata
			}
			g.Casef("jn %s %s %d %d %d %d %s %d %d %s", kind, alpha, g.Pick(1, 1, 2, 2, 0, 3), same, dconf, doff, hx.Hex(ddata), sconf, soff, hx.Hex(sdata))
		case 9: // Trim
			if g.Chance(0.6) {
				kx := g.Pick(0, 1, 3, 10)
				m := g.Pick(0, 1, 2, 3, 3, 4, 5, 6, 8, 12, 20)
				scale := 1 << uint(kx)
				lim := g.Pick(0, 1, scale/2+1, scale, 3, 5)
				es := make([]int, m)
				for i := range es {
					switch g.Intn(4) {
					case 0:
						es[i] = lim // zero contribution
					case 1:
						es[i] = g.Range(0, lim) // good
					default:
						es[i] = g.Range(0, 2*lim+3)
					}
				}
				g.Casef("td %d %d %d %s", g.Pick(0, 0, 1, -1, 5, -4, 100), kx, lim, hx.Ints(es))
			} else {
				m := g.Pick(0, 1, 2, 3, 5, 8, 13, 30)
				qs := make([]byte, m)
				for i := range qs {
					qs[i] = byte(g.Pick(0, 1, 2, 3, 5, 8, 10, 13, 14, 20, 30, 40, 60, 254))
				}
				num, den := 5, 100
				switch g.Intn(5) {
				case 0:
					num, den = 1, 100
				case 1:
					num, den = 1, 10
				case 2:
					num, den = 1, 2
				case 3:
					num, den = 1, 1000
				}
				g.Casef("tq %d %s %d %d", g.Pick(0, 0, 1, -1, 7, -9), hx.Hex(qs), num, den)
			}
		}
	}
}

// ---- shrinking -------------------------------------------------------------------------

func c06Shrink(input string) []string {
	f := hx.Fields(input)
	var out []string
	emit := func(g []string) { out = append(out, strings.Join(g, " ")) }
	with := func(i int, v string) []string {
		g := append([]string(nil), f...)
		g[i] = v
		return g
	}
	dropList := func(i int) {
		if f[i] == "-" {
			return
		}
		parts := strings.Split(f[i], ",")
		for j := range parts {
			rest := append(append([]string(nil), parts[:j]...), parts[j+1:]...)
			v := strings.Join(rest, ",")
			if v == "" {
				v = "-"
			}
			emit(with(i, v))
		}
	}
	dropLetters := func(i, offIdx int, kind string) {
		w := 2
		if kind == "q" {
			w = 4
		}
		if f[i] == "-" || len(f[i]) < w {
			return
		}
		tail := f[i][:len(f[i])-w]
		if tail == "" {
			tail = "-"
		}
		emit(with(i, tail)) // drop the last letter
		head := f[i][w:]
		if head == "" {
			head = "-"
		}
		g := with(i, head) // drop the first letter; the rest keeps its positions
		g[offIdx] = strconv.Itoa(hx.Atoi(f[offIdx]) + 1)
		emit(g)
	}
	switch f[0] {
	case "tr":
		dropLetters(5, 4, f[1])
	case "st", "co":
		dropList(7)
		dropLetters(5, 4, f[1])
	case "td":
		dropList(4)
	case "tq":
		if f[2] != "-" && len(f[2]) >= 2 {
			for j := 0; j+2 <= len(f[2]); j += 2 {
				v := f[2][:j] + f[2][j+2:]
				if v == "" {
					v = "-"
				}
				emit(with(2, v))
			}
		}
	}
	return out
}

// ---- facts regenerated from the source ---------------------------------------------------

func c06Facts(repo string) (string, error) {
	var sb strings.Builder
	sb.WriteString("namespace Biogo.Generated.Sequtils\n\n")
	sb.WriteString("/-- (name, is a Complementor, ComplementTable) of the alphabets the C06 harness uses,\n    dumped from the running package -/\n")
	sb.WriteString("def alphabets : List (String × Bool × List UInt8) := [\n")
	for i, a := range c06Alphabets {
		c, ok := a.a.(alphabet.Complementor)
		tab := make([]string, 256)
		for j := range tab {
			v := j
			if ok {
				v = int(c.ComplementTable()[j])
			}
			tab[j] = strconv.Itoa(v)
		}
		sep := ","
		if i == len(c06Alphabets)-1 {
			sep = ""
		}
		fmt.Fprintf(&sb, "  (%q, %v, [%s])%s\n", a.name, ok, strings.Join(tab, ", "), sep)
	}
	sb.WriteString("]\n\n")
	fmt.Fprintf(&sb, "def seqStart : Int := %d\ndef seqEnd : Int := %d\n", seq.Start, seq.End)
	fmt.Fprintf(&sb, "def confLinear : Int := %d\ndef confCircular : Int := %d\ndef orientReverse : Int := %d\n\n",
		feat.Linear, feat.Circular, feat.Reverse)
	// AST fingerprints of the modelled functions (informational: tells which function changed)
	fset := token.NewFileSet()
	file, err := parser.ParseFile(fset, filepath.Join(repo, "seq", "sequtils", "utils.go"), nil, 0)
	if err != nil {
		return "", err
	}
	sb.WriteString("def fingerprints : List (String × String) := [\n")
	var rows []string
	for _, d := range file.Decls {
		fd, ok := d.(*ast.FuncDecl)
		if !ok || fd.Recv != nil {
			continue
		}
		switch fd.Name.Name {
		case "Join", "Truncate", "Stitch", "Compose", "Trim":
			var b strings.Builder
			printer.Fprint(&b, fset, fd)
			sum := sha256.Sum256([]byte(b.String()))
			rows = append(rows, fmt.Sprintf("  (%q, %q)", fd.Name.Name, hex.EncodeToString(sum[:8])))
		}
	}
	if len(rows) != 5 {
		return "", fmt.Errorf("expected Join, Truncate, Stitch, Compose and Trim in utils.go, found %d of them", len(rows))
	}
	sb.WriteString(strings.Join(rows, ",\n"))
	sb.WriteString("\n]\n\nend Biogo.Generated.Sequtils\n")
	return sb.String(), nil
}

func init() {
	hx.Register(&hx.Prop{ID: "C06", Gen: c06Gen, Exec: c06Exec, Shrink: c06Shrink})
	hx.RegisterFacts(hx.FactGen{File: "SequtilsFacts.lean", Gen: c06Facts})
}
