#!/bin/sh
# tools_agent_ws.sh <name>: private workspace for one builder:
#   /tmp/agents/<name>/verif  clone of /verif on branch agent/<name>
#   /tmp/agents/<name>/repo   worktree of /repo on branch agent/<name>
set -e
n="$1"; d=/tmp/agents/$n
mkdir -p $d
git clone -q /verif $d/verif
git -C $d/verif checkout -q -b agent/$n
git -C /repo worktree add -q -b agent/$n $d/repo HEAD
mkdir -p $d/verif/lean/.lake && cp -r /verif/lean/.lake/build $d/verif/lean/.lake/ 2>/dev/null || true
echo $d
