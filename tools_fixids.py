#!/usr/bin/env python3
"""Rewrite the commit ids in KNOWN_FINDINGS.txt `fixed:` lines to the ids the fix commits have on
/repo's main branch (builders made them on their own branches; cherry-picking changes the id).
Matching is by commit subject."""
import re, subprocess
def git(*a): return subprocess.run(["git", "-C", "/repo"] + list(a), capture_output=True, text=True).stdout
main = {}
for l in git("log", "--format=%h %s", "main").split("\n"):
    if l.strip():
        h, s = l.split(" ", 1); main.setdefault(s, h)
out = []
for line in open("/verif/KNOWN_FINDINGS.txt"):
    m = re.match(r"(fixed: property=\S+ )([0-9a-f]{7,40})( .*)", line.rstrip("\n"))
    if m:
        cid = m.group(2)
        if subprocess.run(["git", "-C", "/repo", "merge-base", "--is-ancestor", cid, "main"], capture_output=True).returncode != 0:
            subj = git("log", "-1", "--format=%s", cid).strip()
            if subj in main:
                line = m.group(1) + main[subj] + m.group(3) + "\n"
            else:
                print("WARNING: no commit on main for", cid, subj)
    out.append(line)
open("/verif/KNOWN_FINDINGS.txt", "w").writelines(out)
