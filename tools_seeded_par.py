#!/usr/bin/env python3
"""Run the registered checks against kept seeded changes, in parallel, without touching /repo.

  python3 tools_seeded_par.py [-j N] [--tier quick|thorough] [<seed id> ...]

N runner workspaces /tmp/seedrun/<k>/{verif,repo} are (re)created: `verif` is a clone of /verif's
HEAD with the Lean build output copied in, `repo` is a detached worktree of /repo's HEAD.  Each
seeded change is applied in a runner's repo worktree, `VERIF_REPO=<that worktree> ./check <prop>`
runs in the runner's clone, the patch is undone.  Results are merged into seeded/RESULTS.json and
seeded/RESULTS.md of /verif.  /repo itself and /verif's evidence are never modified."""
import json, os, subprocess, sys, shutil, time, glob
from concurrent.futures import ThreadPoolExecutor

ROOT = "/verif"
BASE = "/tmp/seedrun"
SET = "seeded"      # or "benign": behaviour-preserving rewrites, on which every check must stay quiet


def sh(cmd, **kw):
    p = subprocess.run(cmd, stdout=subprocess.PIPE, stderr=subprocess.STDOUT, text=True, **kw)
    return p.returncode, p.stdout


def setup_runner(k):
    d = os.path.join(BASE, str(k))
    sh(["git", "-C", "/repo", "worktree", "remove", "--force", os.path.join(d, "repo")])
    shutil.rmtree(d, ignore_errors=True)
    os.makedirs(d)
    sh(["git", "clone", "-q", ROOT, os.path.join(d, "verif")])
    sh(["git", "-C", "/repo", "worktree", "prune"])
    rc, out = sh(["git", "-C", "/repo", "worktree", "add", "-q", "--detach", os.path.join(d, "repo"), "HEAD"])
    if rc != 0:
        raise SystemExit("worktree: " + out)
    os.makedirs(os.path.join(d, "verif", "lean", ".lake"), exist_ok=True)
    shutil.copytree(os.path.join(ROOT, "lean", ".lake", "build"), os.path.join(d, "verif", "lean", ".lake", "build"))
    return d


def run_one(d, sid, tier):
    sd = os.path.join(ROOT, SET, sid)
    meta = json.load(open(os.path.join(sd, "meta.json")))
    props = meta.get("checks") or [meta["property"]]
    repo = os.path.join(d, "repo")
    sh(["git", "-C", repo, "checkout", "--", "."])
    rc, out = sh(["git", "-C", repo, "apply", os.path.join(sd, "patch.diff")])
    if rc != 0:
        return sid, {"property": meta["property"], "applied": False, "detail": out[-300:]}
    entry = {"property": meta["property"], "applied": True, "tier": tier, "checks": {}, "kind": meta.get("kind", "")}
    try:
        for pid in props:
            t0 = time.time()
            rc, out = sh([os.path.join(d, "verif", "check"), pid, "--tier", tier], cwd=os.path.join(d, "verif"),
                         env=dict(os.environ, VERIF_REPO=repo))
            vio = [l for l in out.split("\n") if l.startswith("VIOLATION")]
            reason = ""
            if vio:
                m = vio[0].split("replay=")[-1].split()[0]
                try:
                    r = json.load(open(m))
                    reason = (r.get("reason") or r.get("no_longer_checks") or "")[:200]
                except Exception:
                    pass
            entry["checks"][pid] = {"exit": rc, "violation": [v.replace(d, "") for v in vio[:2]], "wall_s": round(time.time() - t0, 1),
                                    "reason": reason,
                                    "summary": [l for l in out.split("\n") if l.startswith(pid + " tier=")][:1]}
    finally:
        sh(["git", "-C", repo, "checkout", "--", "."])
        shutil.rmtree(os.path.join(d, "verif", "replay"), ignore_errors=True)
        shutil.rmtree(os.path.join(d, "verif", "work", meta["property"]), ignore_errors=True)
    entry["caught"] = any(c["exit"] == 1 and c["violation"] for c in entry["checks"].values())
    entry["with_failing_input"] = any(c["violation"] and "no-failing-input-found" not in c["violation"][0]
                                      for c in entry["checks"].values())
    print(sid, {p: (c["exit"], c["violation"][:1], c["reason"][:80]) for p, c in entry["checks"].items()}, flush=True)
    return sid, entry


def main():
    global SET, BASE
    args = sys.argv[1:]
    tier, j = "quick", 4
    if "--set" in args:
        i = args.index("--set"); SET = args[i + 1]; del args[i:i + 2]
        BASE = "/tmp/seedrun_" + SET
    if "--tier" in args:
        i = args.index("--tier"); tier = args[i + 1]; del args[i:i + 2]
    if "-j" in args:
        i = args.index("-j"); j = int(args[i + 1]); del args[i:i + 2]
    ids = args or sorted(os.path.basename(os.path.dirname(p)) for p in glob.glob(os.path.join(ROOT, SET, "*", "patch.diff")))
    j = min(j, len(ids))
    runners = [setup_runner(k) for k in range(j)]
    queues = [ids[k::j] for k in range(j)]
    results = {}

    def work(k):
        out = []
        for sid in queues[k]:
            out.append(run_one(runners[k], sid, tier))
        return out
    with ThreadPoolExecutor(max_workers=j) as ex:
        for lst in ex.map(work, range(j)):
            for sid, e in lst:
                results[sid] = e
    resp = os.path.join(ROOT, SET, "RESULTS.json")
    allres = json.load(open(resp)) if os.path.exists(resp) else {}
    allres.update(results)
    json.dump(allres, open(resp, "w"), indent=1, sort_keys=True)
    if SET != "seeded":
        with open(os.path.join(ROOT, SET, "RESULTS.md"), "w") as f:
            f.write("| behaviour-preserving rewrite | property | kind | checks stayed quiet | check exit / wall | what was reported |\n|---|---|---|---|---|---|\n")
            for sid in sorted(allres):
                e = allres[sid]
                if not e.get("applied"):
                    f.write("| %s | %s | | patch no longer applies | | |\n" % (sid, e["property"]))
                    continue
                quiet = all(c["exit"] == 0 and not c["violation"] for c in e["checks"].values())
                f.write("| %s | %s | %s | %s | %s | %s |\n" % (sid, e["property"], e.get("kind", ""), "yes" if quiet else "ALARM",
                        "; ".join("%s: %d / %.0fs" % (p, c["exit"], c["wall_s"]) for p, c in e["checks"].items()),
                        "; ".join(((c["violation"] or [""])[0] + " " + (c.get("reason") or "")).replace("|", "/")[:160] for c in e["checks"].values())))
    else:
      with open(os.path.join(ROOT, "seeded", "RESULTS.md"), "w") as f:
        f.write("| seeded change | property | caught | replay has failing input | check exit / wall | reason reported |\n|---|---|---|---|---|---|\n")
        for sid in sorted(allres):
            e = allres[sid]
            if not e.get("applied"):
                f.write("| %s | %s | patch no longer applies | | | |\n" % (sid, e["property"]))
                continue
            f.write("| %s | %s | %s | %s | %s | %s |\n" % (sid, e["property"], "yes" if e["caught"] else "NO",
                    "yes" if e["with_failing_input"] else "no",
                    "; ".join("%s: %d / %.0fs" % (p, c["exit"], c["wall_s"]) for p, c in e["checks"].items()),
                    "; ".join((c.get("reason") or "").replace("|", "/")[:120] for c in e["checks"].values())))
    for k in range(j):
        sh(["git", "-C", "/repo", "worktree", "remove", "--force", os.path.join(runners[k], "repo")])
        shutil.rmtree(runners[k], ignore_errors=True)
    if SET == "seeded":
        missed = [s for s in results if results[s].get("applied") and not results[s]["caught"]]
        print("missed:", missed)
    else:
        print("alarms:", [s for s in results if results[s].get("applied") and
                          any(c["exit"] != 0 or c["violation"] for c in results[s]["checks"].values())])
    return 0


if __name__ == "__main__":
    sys.exit(main())
